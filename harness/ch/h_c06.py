"""C06 harness: validation of collection declarations (real process_metadata / build_collection_callback).
Metadata is handed over as a list-backed Mapping whose keys are compared with == and never hashed, so a
symbolic key string stays symbolic."""
from func_adl_xAOD.common.meta_data import process_metadata
from func_adl_xAOD.common.event_collections import EventCollectionSpecification


class LMap:
    "list-backed mapping: keys compared with ==, never hashed"
    def __init__(self, pairs):
        self.p = list(pairs)

    def keys(self):
        return [k for k, _ in self.p]

    def get(self, k, d=None):
        for a, b in self.p:
            if a == k:
                return b
        return d

    def __getitem__(self, k):
        for a, b in self.p:
            if a == k:
                return b
        raise KeyError(k)

    def __contains__(self, k):
        return any(a == k for a, _ in self.p)

    def __iter__(self):
        return iter(self.keys())

    def __len__(self):
        return len(self.p)

    # error messages format the metadata object: keep CrossHair from realising the (symbolic) keys for that
    def __deepcopy__(self, memo):
        return self

    def __reduce_ex__(self, protocol):
        return (LMap, ([],))

    def __repr__(self):
        return "<metadata>"


DOCUMENTED = {
    "add_atlas_event_collection_info": ["metadata_type", "name", "include_files", "container_type", "element_type", "contains_collection", "link_libraries"],
    "add_cms_aod_event_collection_info": ["metadata_type", "name", "include_files", "container_type", "element_type", "contains_collection", "element_pointer"],
    "add_cms_miniaod_event_collection_info": ["metadata_type", "name", "include_files", "container_type", "element_type", "contains_collection", "element_pointer"],
}
BACKEND_OF = {"add_atlas_event_collection_info": "atlas", "add_cms_aod_event_collection_info": "cms_aod", "add_cms_miniaod_event_collection_info": "cms_miniaod"}


def _base(mt):
    return [("metadata_type", mt), ("name", "Foo"), ("include_files", ["a.h"]), ("container_type", "ns::FooContainer"),
            ("element_type", "ns::Foo"), ("contains_collection", True)]


def _extra_key(mt, k):
    # the extra key carries a value of the kind its documented namesake takes (a list of names / a flag)
    val = ["extralib"] if (k == "link_libraries" or k == "include_files") else True
    md = LMap(_base(mt) + [(k, val)])
    try:
        r = process_metadata([md])
    except ValueError:
        return k not in DOCUMENTED[mt]
    except Exception:
        return False
    return k in DOCUMENTED[mt] and len(r) == 1 and isinstance(r[0], EventCollectionSpecification) and r[0].backend_name == BACKEND_OF[mt]


def extra_key_atlas(k: str) -> bool:
    """
    pre: len(k) <= 20
    post: _
    """
    return _extra_key("add_atlas_event_collection_info", k)


def extra_key_cms_aod(k: str) -> bool:
    """
    pre: len(k) <= 20
    post: _
    """
    return _extra_key("add_cms_aod_event_collection_info", k)


def extra_key_cms_miniaod(k: str) -> bool:
    """
    pre: len(k) <= 20
    post: _
    """
    return _extra_key("add_cms_miniaod_event_collection_info", k)


def _consistency(mt, contains: bool, has_elem: bool):
    pairs = [("metadata_type", mt), ("name", "Foo"), ("include_files", ["a.h"]), ("container_type", "ns::FooContainer"), ("contains_collection", contains)]
    if has_elem:
        pairs.append(("element_type", "ns::Foo"))
    try:
        r = process_metadata([LMap(pairs)])
    except ValueError:
        return contains != has_elem
    except Exception:
        # CMS backends have no singleton collections: refusing them in any way is acceptable
        return mt != "add_atlas_event_collection_info" and not contains
    if contains != has_elem:
        return False
    return len(r) == 1 and r[0].name == "Foo"


def element_type_consistency_atlas(contains: bool, has_elem: bool) -> bool:
    """
    post: _
    """
    return _consistency("add_atlas_event_collection_info", contains, has_elem)


def element_type_consistency_cms_aod(contains: bool, has_elem: bool) -> bool:
    """
    post: _
    """
    return _consistency("add_cms_aod_event_collection_info", contains, has_elem)


def element_type_consistency_cms_miniaod(contains: bool, has_elem: bool) -> bool:
    """
    post: _
    """
    return _consistency("add_cms_miniaod_event_collection_info", contains, has_elem)


def declaration_fields_reach_specification(name: str, ctype: str, etype: str, hdr: str) -> bool:
    """
    pre: len(name) == 2 and len(ctype) == 2 and len(etype) == 2 and len(hdr) == 2
    post: _
    """
    md = LMap([("metadata_type", "add_atlas_event_collection_info"), ("name", name), ("include_files", [hdr]), ("container_type", ctype),
               ("element_type", etype), ("contains_collection", True), ("link_libraries", ["libX"])])
    r = process_metadata([md])
    s = r[0]
    ct = s.container_type
    return (s.name == name and s.include_files == [hdr] and s.libraries == ["libX"] and ct.type == ctype and ct.p_depth == 1
            and ct.element_type.type == etype and ct.element_type.p_depth == 1 and str(ct) == "const " + ctype + "*")


def _executor(backend):
    from h_common import make_executor
    return make_executor(backend)


def other_backend_refused(decl: int, exe: int) -> bool:
    """
    pre: 0 <= decl <= 2 and 0 <= exe <= 2
    post: _
    """
    mts = ["add_atlas_event_collection_info", "add_cms_aod_event_collection_info", "add_cms_miniaod_event_collection_info"]
    backends = ["atlas", "cms_aod", "cms_miniaod"]
    mt = mts[0] if decl == 0 else (mts[1] if decl == 1 else mts[2])
    be = backends[0] if exe == 0 else (backends[1] if exe == 1 else backends[2])
    spec = process_metadata([dict(_base(mt))])[0]
    e = _executor(be)
    try:
        cb = e.build_collection_callback(spec)
    except ValueError:
        return decl != exe
    return decl == exe and callable(cb)


def element_pointer_honoured(ptr: bool, mini: bool) -> bool:
    """
    post: _
    """
    mt = "add_cms_miniaod_event_collection_info" if mini else "add_cms_aod_event_collection_info"
    md = dict(_base(mt))
    md["element_pointer"] = ptr
    spec = process_metadata([md])[0]
    return spec.container_type.element_type.p_depth == (1 if ptr else 0)


def _extra_key_after(first_mt, mt, k):
    # another backend's (valid) declaration was processed earlier in the same process: what a declaration may carry does not
    # depend on it
    try:
        process_metadata([LMap(_base(first_mt) + ([("link_libraries", ["firstlib"])] if first_mt.startswith("add_atlas") else [("element_pointer", False)]))])
    except Exception:
        return False
    return _extra_key(mt, k)


def extra_key_cms_aod_after_atlas(k: str) -> bool:
    """
    pre: len(k) <= 20
    post: _
    """
    return _extra_key_after("add_atlas_event_collection_info", "add_cms_aod_event_collection_info", k)


def extra_key_atlas_after_cms_miniaod(k: str) -> bool:
    """
    pre: len(k) <= 20
    post: _
    """
    return _extra_key_after("add_cms_miniaod_event_collection_info", "add_atlas_event_collection_info", k)


def extra_key_cms_miniaod_after_atlas(k: str) -> bool:
    """
    pre: len(k) <= 20
    post: _
    """
    return _extra_key_after("add_atlas_event_collection_info", "add_cms_miniaod_event_collection_info", k)
