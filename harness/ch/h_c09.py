"""C09 harness: malformed / unknown metadata is refused (real process_metadata)."""
from func_adl_xAOD.common.meta_data import process_metadata
from h_c06 import LMap

KNOWN = ["add_method_type_info", "inject_code", "add_job_script", "add_cpp_function", "add_atlas_event_collection_info",
         "add_cms_aod_event_collection_info", "add_cms_miniaod_event_collection_info", "define_enum"]


def unknown_metadata_type_raises(t: str) -> bool:
    """
    pre: len(t) <= 30
    post: _
    """
    if t in KNOWN:
        return True
    try:
        process_metadata([{"metadata_type": t, "name": "x"}])
    except ValueError:
        return True
    except Exception:
        return False
    return False


def missing_metadata_type_raises(k: str) -> bool:
    """
    pre: len(k) <= 13 and k != "metadata_type"
    post: _
    """
    try:
        process_metadata([LMap([(k, "inject_code"), ("name", "x")])])
    except ValueError:
        return True
    except Exception:
        return False
    return False


def unknown_extended_type_position(t: str, first: bool) -> bool:
    """
    pre: len(t) <= 10
    post: _
    """
    # an unknown type anywhere in the list refuses the whole list (nothing half-processed is returned)
    if t in KNOWN:
        return True
    good = {"metadata_type": "add_job_script", "name": "b", "script": ["x"]}
    bad = {"metadata_type": t}
    try:
        process_metadata([bad, good] if first else [good, bad])
    except ValueError:
        return True
    except Exception:
        return False
    return False


def inject_code_unknown_field(k: int) -> bool:
    """
    pre: 0 <= k <= 9
    post: _
    """
    # process_metadata copies the metadata into a dict (hashing realises a symbolic key), so the field names are
    # enumerated: the 7 documented ones and 3 others
    fields = ["body_includes", "header_includes", "private_members", "instance_initialization", "ctor_lines", "initialize_lines",
              "link_libraries", "body_include", "Header_includes", "lines"]
    f = fields[0]
    i = 0
    while i < 10:
        if i == k:
            f = fields[i]
        i += 1
    try:
        r = process_metadata([{"metadata_type": "inject_code", "name": "b", f: ["x"]}])
    except ValueError:
        return k >= 7
    return k < 7 and len(r) == 1 and getattr(r[0], f) == ["x"]
