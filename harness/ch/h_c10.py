"""C10 harness: type-string parsing, member-access synthesis, dereference, tree types, enum values and the
metadata -> registry path, on the repository's real functions with symbolic inputs."""
import func_adl_xAOD.common.cpp_representation as crep
import func_adl_xAOD.common.cpp_types as ctyp
from func_adl_xAOD.common.meta_data import process_metadata


def _parse_type_pointer_depth(base: str, spaces: int, k: int) -> bool:
    r = ctyp.parse_type(base + " " * spaces + "*" * k)
    return r.name == base and r.pointer_depth == k and not r.is_const


def _parse_type_const(base: str, k: int) -> bool:
    r = ctyp.parse_type("const " + base + "*" * k)
    return r.name == base and r.pointer_depth == k and bool(r.is_const)


def _parse_type_str_round_trip(base: str, k: int) -> bool:
    r = ctyp.parse_type(base + "*" * k)
    return str(r) == base + "*" * k and str(ctyp.terminal(r)) == base + "*" * k


def member_access_indirection(p: int, d: int) -> bool:
    """
    pre: 0 <= p <= 3 and 0 <= d <= 3
    post: _
    """
    v = crep.cpp_value("x", None, ctyp.terminal("T", p_depth=p))
    got = crep.base_type_member_access(v, d)
    n = p + d
    if n == 0:
        return got == "x."
    want = "x"
    i = 1
    while i < n:
        want = "(*" + want + ")"
        i += 1
    return got == want + "->"


def member_access_default_deref(p: int) -> bool:
    """
    pre: 0 <= p <= 3
    post: _
    """
    v = crep.cpp_value("obj", None, ctyp.terminal("T", p_depth=p))
    return crep.base_type_member_access(v) == crep.base_type_member_access(v, 0)


def dereference_var_once(p: int) -> bool:
    """
    pre: 0 <= p <= 3
    post: _
    """
    v = crep.cpp_value("x", None, ctyp.terminal("T", p_depth=p))
    r = crep.dereference_var(v)
    if p == 0:
        return r.as_cpp() == "x" and r.cpp_type().p_depth == 0
    return r.as_cpp() == "*x" and r.cpp_type().p_depth == p - 1 and r.cpp_type().type == "T" and v.as_cpp() == "x" and v.cpp_type().p_depth == p


def collection_dereference(p: int, ep: int) -> bool:
    """
    pre: 0 <= p <= 2 and 0 <= ep <= 2
    post: _
    """
    t = ctyp.collection(ctyp.terminal("E", p_depth=ep), array_type="C", p_depth=p)
    v = crep.cpp_collection("c", None, t)
    r = crep.dereference_var(v)
    ok_elem = r.get_element_type().type == "E" and r.get_element_type().p_depth == ep
    if p == 0:
        return r.as_cpp() == "c" and ok_elem
    return r.as_cpp() == "*c" and r.cpp_type().p_depth == p - 1 and ok_elem


def tree_type_of_terminal(name: str, tt: str, p: int, use_tt: bool) -> bool:
    """
    pre: 1 <= len(name) <= 3 and 1 <= len(tt) <= 3 and 0 <= p <= 2
    post: _
    """
    t = ctyp.terminal(name, p_depth=p, tree_type=tt if use_tt else None)
    r = t.tree_type
    if use_tt:
        return r.type == tt and r.p_depth == p
    return r.type == name and r.p_depth == p


_NS_PARTS = ["xa", "od", "det", "q"]


def enum_value_symbolic_value(val: str, depth: int) -> bool:
    """
    pre: 1 <= len(val) <= 3
    pre: all(("a" <= c <= "z") or c == "_" for c in val)
    pre: 1 <= depth <= 4
    post: _
    """
    ctyp.g_toplevel_ns = {}
    parts = _NS_PARTS[:depth]
    ns = ".".join(parts)
    e = ctyp.define_enum(ns, "Color", [val, "other"])
    return e.value_as_cpp(val) == "::".join(parts) + "::" + val and str(e) == ns + ".Color"


def enum_namespace_symbolic(ns1: str, depth: int) -> bool:
    """
    pre: len(ns1) == 1 and "a" <= ns1 <= "z"
    pre: 1 <= depth <= 4
    post: _
    """
    ctyp.g_toplevel_ns = {}
    parts = [ns1] + ["sub", "det", "q"][:depth - 1]
    ns = ".".join(parts)
    e = ctyp.define_enum(ns, "Color", ["red", "other"])
    top = ctyp.get_toplevel_ns(ns1)
    if top is None:
        return False
    holder = top
    for part in parts[1:]:
        holder = holder.get_ns(part)
        if holder is None:
            return False
    return e.value_as_cpp("red") == "::".join(parts) + "::red" and holder.get_enum("Color") is e


def _metadata_to_registry(ts: str, mn: str, rt: str, k: int, d: int, has_d: bool) -> bool:
    "rt is the whole return-type string: one base character followed by k stars"
    ctyp.g_method_type_dict = {}
    md = {"metadata_type": "add_method_type_info", "type_string": ts, "method_name": mn, "return_type": rt}
    if has_d:
        md["deref_count"] = d
    process_metadata([md])
    info = ctyp.method_type_info(ts, mn)
    if info is None:
        return False
    return (info.r_type.type == rt[0:1] and info.r_type.p_depth == k and info.deref_depth == (d if has_d else 0)
            and not isinstance(info.r_type, ctyp.collection) and ctyp.method_type_info(ts, mn + "x") is None)


def metadata_collection_to_registry(ek: int, ck: int, custom: bool) -> bool:
    """
    pre: 0 <= ek <= 2 and 0 <= ck <= 1
    post: _
    """
    ctyp.g_method_type_dict = {}
    md = {"metadata_type": "add_method_type_info", "type_string": "T", "method_name": "m", "return_type_element": "E" + "*" * ek}
    if custom:
        md["return_type_collection"] = "Coll" + "*" * ck
    process_metadata([md])
    info = ctyp.method_type_info("T", "m")
    if info is None or not isinstance(info.r_type, ctyp.collection):
        return False
    et = info.r_type.element_type
    if et.type != "E" or et.p_depth != ek:
        return False
    if custom:
        return info.r_type.type == "Coll" and info.r_type.p_depth == ck
    return info.r_type.type == "std::vector<E" + "*" * ek + ">" and info.r_type.p_depth == 0


def _ref_parse(t: str):
    """Independent reference for parse_type on printable ASCII (index based, no str.strip):
    trailing '*' (with blanks around them) are the pointer depth, a leading 'const ' marks const."""
    i = len(t)
    depth = 0
    while True:
        while i > 0 and t[i - 1] == " ":
            i -= 1
        if i > 0 and t[i - 1] == "*":
            depth += 1
            i -= 1
        else:
            break
    j = 0
    while j < i and t[j] == " ":
        j += 1
    core = t[j:i]
    const = False
    if core[0:6] == "const ":
        const = True
        core = core[6:]
    return core, depth, const


def parse_type_vs_reference_len4(t: str) -> bool:
    """
    pre: len(t) <= 4
    pre: all(" " <= c <= "~" for c in t)
    post: _
    """
    r = ctyp.parse_type(t)
    name, depth, const = _ref_parse(t)
    return r.name == name and r.pointer_depth == depth and bool(r.is_const) == const


def parse_type_vs_reference_const(t: str) -> bool:
    """
    pre: 6 <= len(t) <= 9 and t[0:6] == "const "
    pre: all(" " <= c <= "~" for c in t)
    post: _
    """
    r = ctyp.parse_type(t)
    name, depth, const = _ref_parse(t)
    return r.name == name and r.pointer_depth == depth and bool(r.is_const) == const
