"""C11 harness: substitution of actual arguments into injected C++ code, through the REAL pipeline
(metadata add_cpp_function -> build_CPPCodeValue -> process_ast_node).  Formal names and code lines come from a
table of hygiene-sensitive shapes; the actual argument texts are symbolic (integer constants whose C++ text is
str(n)) and the oracle is an independent token-based simultaneous whole-word substitution."""
import ast

from h_common import build, translate

IDENT = "abcdefghijklmnopqrstuvwxyzABCDEFGHIJKLMNOPQRSTUVWXYZ0123456789_"

# (formal parameter names, code lines).  Each exercises one hygiene hazard.
CASES = [
    (["pt", "eta"], ["auto pt_gev = pt / 1000.0;", "auto theta = 2.0*atan(exp(-eta));", "auto result = pt_gev*cos(theta) + pt - eta;"]),   # formals inside longer words
    (["a", "b"], ["auto result = a + b - ab + a_b + ba + (a)*(b) + a1 + b2;"]),                                                          # prefixes / suffixes
    (["x", "xx"], ["auto result = x + xx + xxx + x*xx;"]),                                                                               # one formal is a prefix of the other
    (["b", "a"], ["auto t = a;", "auto result = t + b + a;"]),                                                                           # order of formals vs occurrence
    (["first", "second"], ["auto result = second - first + first*second + firstsecond + second_first;"]),
    (["v"], ["auto result = v + vv + v_ + _v + v;"]),
    (["p", "q", "r"], ["auto result = p*q + q*r + r*p + pq + qr + rp + pqr;"]),
]


def _ref_substitute(line, mapping):
    "independent reference: split into maximal identifier runs; a run equal to a formal becomes its actual"
    out = []
    i = 0
    n = len(line)
    while i < n:
        if line[i] in IDENT:
            j = i
            while j < n and line[j] in IDENT:
                j += 1
            tok = line[i:j]
            out.append(mapping[tok] if tok in mapping else tok)
            i = j
        else:
            out.append(line[i])
            i += 1
    return "".join(out)


def _run_case(k, n1, n2, n3):
    formals, code = CASES[0]
    i = 0
    while i < len(CASES):
        if i == k:
            formals, code = CASES[i]
        i += 1
    vals = [n1, n2, n3][:len(formals)]
    md = {"metadata_type": "add_cpp_function", "name": "userfn", "include_files": ["userfn.h"], "arguments": formals,
          "code": code, "result_name": "result", "return_type": "double"}
    args = ", ".join("1234%d" % i for i in range(len(formals)))
    a = build(f"Select(MetaData(EventDataset('ds'), {md!r}), lambda e: e.Jets('A').Select(lambda j: userfn({args})))")
    # put the symbolic integers in place of the placeholder constants
    for node in ast.walk(a):
        if isinstance(node, ast.Constant) and type(node.value) is int and 12340 <= node.value <= 12349:
            node.value = vals[node.value - 12340]
    q, b, decl, rep = translate(a, "atlas")
    got = [ln for ln in q]
    # the C++ text of an integer actual is its decimal text; a negative one may be written in parentheses
    plain = {f: str(v) for f, v in zip(formals, vals)}
    if _block_present(got, [_ref_substitute(ln, plain) for ln in code]):
        return True
    paren = {f: (str(v) if v >= 0 else "(" + str(v) + ")") for f, v in zip(formals, vals)}
    return _block_present(got, [_ref_substitute(ln, paren) for ln in code])


def _block_present(got, want):
    "the substituted lines appear, in order and contiguously, inside their own block"
    idx = -1
    for i, ln in enumerate(got):
        if ln == want[0]:
            idx = i
            break
    if idx < 1:
        return False
    if got[idx:idx + len(want)] != want:
        return False
    return got[idx - 1] == "{" and got[idx + len(want)].startswith("userfn") and got[idx + len(want)].endswith(" = result;") and got[idx + len(want) + 1] == "}"


def substitution_case0(n1: int, n2: int) -> bool:
    """
    pre: -99 <= n1 <= 99 and -99 <= n2 <= 99
    post: _
    """
    return _run_case(0, n1, n2, 0)


def substitution_case1(n1: int, n2: int) -> bool:
    """
    pre: -99 <= n1 <= 99 and -99 <= n2 <= 99
    post: _
    """
    return _run_case(1, n1, n2, 0)


def substitution_case2(n1: int, n2: int) -> bool:
    """
    pre: -99 <= n1 <= 99 and -99 <= n2 <= 99
    post: _
    """
    return _run_case(2, n1, n2, 0)


def substitution_case3(n1: int, n2: int) -> bool:
    """
    pre: -99 <= n1 <= 99 and -99 <= n2 <= 99
    post: _
    """
    return _run_case(3, n1, n2, 0)


def substitution_case4(n1: int, n2: int) -> bool:
    """
    pre: -99 <= n1 <= 99 and -99 <= n2 <= 99
    post: _
    """
    return _run_case(4, n1, n2, 0)


def substitution_case5(n1: int) -> bool:
    """
    pre: -999 <= n1 <= 999
    post: _
    """
    return _run_case(5, n1, 0, 0)


def substitution_case6(n1: int, n2: int, n3: int) -> bool:
    """
    pre: 0 <= n1 <= 9 and 0 <= n2 <= 9 and 0 <= n3 <= 9
    post: _
    """
    return _run_case(6, n1, n2, n3)


def _string_actual(s):
    # a string argument whose text contains a backslash / quote must arrive unaltered (no re template expansion)
    from h_common import cpp_string_value
    md = {"metadata_type": "add_cpp_function", "name": "userfn", "include_files": [], "arguments": ["name", "k"],
          "code": ["auto result = lookup(name, k);"], "result_name": "result", "return_type": "double"}
    a = build(f"Select(MetaData(EventDataset('ds'), {md!r}), lambda e: e.Jets('A').Select(lambda j: userfn('@s', 7)))", s=s)
    q, b, decl, rep = translate(a, "atlas")
    ln = None
    for x in q:
        if x.startswith("auto result = lookup("):
            ln = x
    if ln is None or not ln.endswith(", 7);"):
        return False
    lit = ln[len("auto result = lookup("):len(ln) - len(", 7);")]
    return cpp_string_value(lit) == s


def string_actual_is_verbatim_len1(s: str) -> bool:
    """
    pre: len(s) <= 1
    post: _
    """
    return _string_actual(s)


def string_actual_is_verbatim_len2(s: str) -> bool:
    """
    pre: len(s) == 2
    post: _
    """
    return _string_actual(s)
