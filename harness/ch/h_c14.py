"""C14 harness (bookkeeping): the real process_metadata + executor._ib_fetch on inject_code blocks whose names and
line contents are symbolic (they are only compared with ==, so they stay symbolic)."""
from func_adl_xAOD.common.meta_data import InjectCodeBlock, process_metadata

FIELDS = ["body_includes", "header_includes", "private_members", "instance_initialization", "ctor_lines", "initialize_lines", "link_libraries"]


def _field(k):
    f = FIELDS[0]
    i = 0
    while i < 7:
        if i == k:
            f = FIELDS[i]
        i += 1
    return f


def _executor_with(blocks):
    from func_adl_xAOD.atlas.xaod.executor import atlas_xaod_executor
    e = atlas_xaod_executor()
    e._inject_blocks = [b for b in blocks if isinstance(b, InjectCodeBlock)]
    return e


def _two(n1, n2, a, b, k):
    f = _field(k)
    mds = [{"metadata_type": "inject_code", "name": n1, f: [a]}, {"metadata_type": "inject_code", "name": n2, f: [b]}]
    try:
        r = process_metadata(mds)
    except ValueError:
        return n1 == n2 and a != b                      # same name, different content: the only error
    if n1 == n2:
        if a != b:
            return False
        want = [a]                                       # identical blocks count once
    else:
        want = [a, b]                                    # distinct blocks: both, in order, even with equal lines
    e = _executor_with(r)
    got = e._ib_fetch(f)
    others = [x for x in FIELDS if x != f]
    return got == want and all(e._ib_fetch(x) == [] for x in others)


def two_blocks_no_conflict(n1: str, n2: str, a: str, b: str, k: int) -> bool:
    """
    pre: len(n1) <= 2 and len(n2) <= 2 and len(a) <= 2 and len(b) <= 2 and 0 <= k <= 6
    pre: not (n1 == n2 and a != b)
    post: _
    """
    return _two(n1, n2, a, b, k)


def two_blocks_conflict(n: str, a: str, b: str, k: int) -> bool:
    """
    pre: len(n) == 1 and len(a) == 1 and len(b) == 1 and 0 <= k <= 6 and a != b
    pre: "a" <= n <= "c" and "a" <= a <= "c" and "a" <= b <= "c"
    post: _
    """
    # the error message formats the blocks, which makes CrossHair realise the strings: small alphabet here
    return _two(n, n, a, b, k)


def _same_name_two_lines(a, b, c, d, k, k2, x, y):
    "two blocks with ONE name: field k holds [a, b] vs [c, d], a second field k2 holds [x] vs [y]; identical -> one block, else ValueError"
    f, f2 = _field(k), _field(k2)
    m1 = {"metadata_type": "inject_code", "name": "blk", f: [a, b]}
    m2 = {"metadata_type": "inject_code", "name": "blk", f: [c, d]}
    if f2 != f:
        m1[f2] = [x]
        m2[f2] = [y]
    same = a == c and b == d and (f2 == f or x == y)
    try:
        r = process_metadata([m1, m2])
    except ValueError:
        return not same
    if not same:
        return False                                      # a different content under the same name must be refused
    e = _executor_with(r)
    return e._ib_fetch(f) == [a, b]


def same_name_two_lines(a: str, b: str, c: str, d: str, k: int) -> bool:
    """
    pre: len(a) == 1 and len(b) == 1 and len(c) == 1 and len(d) == 1 and 0 <= k <= 6
    pre: "a" <= a <= "b" and "a" <= b <= "b" and "a" <= c <= "b" and "a" <= d <= "b"
    post: _
    """
    return _same_name_two_lines(a, b, c, d, k, k, "", "")


def same_name_second_field_differs(a: str, x: str, y: str, k: int, k2: int) -> bool:
    """
    pre: len(a) == 1 and len(x) == 1 and len(y) == 1 and 0 <= k <= 6 and 0 <= k2 <= 6 and k != k2
    pre: "a" <= a <= "b" and "a" <= x <= "b" and "a" <= y <= "b"
    post: _
    """
    return _same_name_two_lines(a, a, a, a, k, k2, x, y)


def lines_in_block_order(a: str, b: str, k: int) -> bool:
    """
    pre: len(a) <= 2 and len(b) <= 2 and 0 <= k <= 6
    post: _
    """
    f = _field(k)
    # one block with a repeated line, a second block repeating a line of the first
    mds = [{"metadata_type": "inject_code", "name": "first", f: [a, b, a]}, {"metadata_type": "inject_code", "name": "second", f: [b]}]
    r = process_metadata(mds)
    e = _executor_with(r)
    return e._ib_fetch(f) == [a, b, a, b]


def three_blocks_duplicate_middle(n: str, a: str, c: str, k: int) -> bool:
    """
    pre: len(n) <= 2 and len(a) <= 2 and len(c) <= 2 and 0 <= k <= 6
    pre: not (n == "x" and c != a)
    post: _
    """
    f = _field(k)
    mds = [{"metadata_type": "inject_code", "name": "x", f: [a]}, {"metadata_type": "inject_code", "name": n, f: [c]},
           {"metadata_type": "inject_code", "name": "x", f: [a]}]
    r = process_metadata(mds)
    e = _executor_with(r)
    if n == "x":
        return e._ib_fetch(f) == [a]
    return e._ib_fetch(f) == [a, c]


def properties_map_to_fields(a: str, k: int) -> bool:
    """
    pre: len(a) <= 3 and 0 <= k <= 6
    post: _
    """
    f = _field(k)
    e = _executor_with(process_metadata([{"metadata_type": "inject_code", "name": "blk", f: [a]}]))
    props = {"body_includes": e.body_include_files, "header_includes": e.header_include_files, "private_members": e.private_members,
             "instance_initialization": e.instance_initialization, "ctor_lines": e.ctor_lines, "initialize_lines": e.initialize_lines,
             "link_libraries": e.link_libraries}
    return all(v == ([a] if name == f else []) for name, v in props.items())


def empty_block_is_dropped(n: str) -> bool:
    """
    pre: len(n) <= 3
    post: _
    """
    r = process_metadata([{"metadata_type": "inject_code", "name": n}])
    return r == [] or (len(r) == 1 and all(getattr(r[0], f) == [] for f in FIELDS))
