"""C15 harness: the real generate_script_block against an independent reference
(first-occurrence map, union of dependencies, Kahn's algorithm)."""
from typing import List

from func_adl_xAOD.common.meta_data import JobScriptSpecification, generate_script_block


def _mk(names, deps, variants):
    bl = []
    for i, n in enumerate(names):
        bl.append(JobScriptSpecification(name=f"b{n}", script=[f"b{n}v{variants[i]}L1", f"b{n}v{variants[i]}L2"],
                                         depends_on=[f"b{d}" for d in deps[i]]))
    return bl


def _judge(names, deps, variants) -> bool:
    blocks = _mk(names, deps, variants)
    byname = {}
    conflict = False
    alldeps = {}
    for b in blocks:
        if b.name in byname and byname[b.name].script != b.script:
            conflict = True
        byname.setdefault(b.name, b)
        alldeps.setdefault(b.name, set()).update(b.depends_on)
    missing = any(d not in byname for ds in alldeps.values() for d in ds)
    done = set()
    progress = True
    while progress:
        progress = False
        for n in byname:
            if n not in done and alldeps[n] <= done:
                done.add(n)
                progress = True
    cyc = len(done) < len(byname)
    should_raise = conflict or missing or cyc
    try:
        out = generate_script_block(blocks)
    except ValueError:
        return should_raise
    if should_raise:
        return False
    exp_lines = sorted(ln for b in byname.values() for ln in b.script)
    if sorted(out) != exp_lines:
        return False
    pos = {}
    for nm, b in byname.items():
        i = out.index(b.script[0])
        if out[i:i + len(b.script)] != b.script:
            return False
        pos[nm] = i
    for nm, ds in alldeps.items():
        for d in ds:
            if pos[d] >= pos[nm]:
                return False
    return True


def order_1block(deps0: List[int], v0: int) -> bool:
    """
    pre: len(deps0) <= 2 and all(0 <= x <= 2 for x in deps0) and 0 <= v0 <= 1
    post: _
    """
    return _judge([0], [deps0], [v0])


def _through_executor(blocks):
    "the lines the real ATLAS executor hands to the job-options template"
    from func_adl_xAOD.atlas.xaod.executor import atlas_xaod_executor
    e = atlas_xaod_executor()
    e._job_option_blocks = list(blocks)
    return e.add_to_replacement_dict()["job_option_additions"]


def shared_lines_all_kept(x: str, y: str, z: str, dep: bool) -> bool:
    """
    pre: len(x) <= 2 and len(y) <= 2 and len(z) <= 2
    post: _
    """
    # two DIFFERENT blocks that share lines (boilerplate), one of them repeating a line: every line of every block, contiguous, in order
    one = JobScriptSpecification(name="one", script=[x, y, x], depends_on=[])
    two = JobScriptSpecification(name="two", script=[x, z, y], depends_on=["one"] if dep else [])
    got = _through_executor([two, one] if dep else [one, two])
    return got == [x, y, x, x, z, y] and generate_script_block([one, two]) == [x, y, x, x, z, y]


def executor_passes_order_through(v0: int, v1: int, d01: bool) -> bool:
    """
    pre: 0 <= v0 <= 1 and 0 <= v1 <= 1
    post: _
    """
    blocks = _mk([1, 0], [[0] if d01 else [], []], [v1, v0])
    return _through_executor(blocks) == generate_script_block(blocks)
