"""C15 harness: insertion of the generated script into the ATLAS job options (real executor + real template)."""
import tempfile
from pathlib import Path
from typing import List

import jinja2

from func_adl_xAOD.atlas.xaod.executor import atlas_xaod_executor
from func_adl_xAOD.common.executor import _find_dir
from func_adl_xAOD.common.meta_data import JobScriptSpecification

_EXE = atlas_xaod_executor()
_ENV = jinja2.Environment(loader=jinja2.FileSystemLoader(_find_dir(_EXE._template_dir_name)))
_TEMPLATE_TEXT = (Path(_find_dir(_EXE._template_dir_name)) / "ATestRun_eljob.py").read_text()


def inserted_where_documented(k0: int, k1: int, dep: int) -> bool:
    """
    pre: 0 <= k0 <= 2 and 0 <= k1 <= 2 and 0 <= dep <= 1
    post: _
    """
    # two blocks whose script lines are picked from a small alphabet incl. template-special characters
    alphabet = ["x = 1", "y = '{{ not_a_var }}'", "z = '{% endfor %}'  # <&>"]
    l0 = alphabet[0] if k0 == 0 else (alphabet[1] if k0 == 1 else alphabet[2])
    l1 = alphabet[0] if k1 == 0 else (alphabet[1] if k1 == 1 else alphabet[2])
    b0 = JobScriptSpecification("b0", [l0, "pass"], [])
    b1 = JobScriptSpecification("b1", [l1], ["b0"] if dep else [])
    _EXE._job_option_blocks = [b1, b0] if dep else [b0, b1]
    d = _EXE.add_to_replacement_dict()
    lines = d["job_option_additions"]
    want = b0.script + b1.script
    if lines != want:
        return False
    out = _ENV.get_template("ATestRun_eljob.py").render(d)
    head, tail = _TEMPLATE_TEXT.split("{% for i in job_option_additions %}")
    tail = tail.split("{% endfor %}", 1)[1]
    # static text untouched, lines inserted verbatim, once, in order, between job creation and algorithm creation
    if not (out.startswith(head) and out.rstrip("\n").endswith(tail.rstrip("\n"))):
        return False
    mid = out[len(head):len(out) - len(tail.rstrip("\n")) - (len(out) - len(out.rstrip("\n")))]
    got = [ln for ln in mid.split("\n") if ln.strip()]
    return got == want and "job = ROOT.EL.Job()" in head and "createAlgorithm" in tail
