"""C17 harness: the real LocalDataset classes driven with a stand-in python_on_whales (stubs/py) and a
deterministic temporary-directory factory.  Symbolic: number/placement/existence of input files, image and
tag strings, presence of docker metadata, whether an output directory is given, container outcome."""
import ast
import os
import shutil
import tempfile
from pathlib import Path

import logging
import python_on_whales
logging.disable(logging.CRITICAL)
from python_on_whales import SCENARIO

BASE = Path(os.environ.get("VERIF_SCRATCH", "/tmp")) / (("verif-" + os.environ["VERIF_RUN_ID"]) if os.environ.get("VERIF_RUN_ID") else "") / f"c17-{os.getpid()}"
_counter = [0]


class _DetTempDir:
    "tempfile.TemporaryDirectory without randomness (CrossHair patches `random`)"
    created = []

    def __init__(self, *a, **k):
        _counter[0] += 1
        self.name = str(BASE / f"tmp{_counter[0]}")
        os.makedirs(self.name, exist_ok=True)
        _DetTempDir.created.append(self.name)

    def __enter__(self):
        return self.name

    def __exit__(self, *exc):
        shutil.rmtree(self.name, ignore_errors=True)
        return False

    def cleanup(self):
        shutil.rmtree(self.name, ignore_errors=True)


tempfile.TemporaryDirectory = _DetTempDir


def _det_mkdtemp(suffix=None, prefix=None, dir=None):
    "tempfile.mkdtemp without randomness; the directory is tracked like the TemporaryDirectory ones"
    _counter[0] += 1
    name = str(Path(dir) / f"tmp{_counter[0]}") if dir else str(BASE / f"tmp{_counter[0]}")
    os.makedirs(name, exist_ok=True)
    _DetTempDir.created.append(name)
    return name


tempfile.mkdtemp = _det_mkdtemp
# gettempdir() probes candidate directories with random file names; resolve it deterministically instead
tempfile._get_default_tempdir = lambda *a, **k: str(BASE)

# jinja2 cannot run under CrossHair (its generated template code has no source, which CrossHair's contract
# enforcement trips over, and CrossHair intercepts the builtin compile()): the rendering step is stubbed -
# every template file is written with a fixed placeholder text.  Rendering itself is the subject of C02/C14.
import func_adl_xAOD.common.executor as _ex  # noqa: E402


def _stub_copy_template_file(self, j2_env, info, template_file, final_dir):
    (Path(final_dir) / template_file).write_text("rendered elsewhere (C02/C14)")


_ex.executor._copy_template_file = _stub_copy_template_file


def _dataset_class(backend):
    if backend == 0:
        from func_adl_xAOD.atlas.xaod.local_dataset import xAODDataset
        return xAODDataset, "Jets", ("func_adl_atlas_xaod_calibration_cache", "/xaod_calibration_cache")
    if backend == 1:
        from func_adl_xAOD.cms.aod.local_dataset import CMSRun1AODDataset
        return CMSRun1AODDataset, "Muons", None
    from func_adl_xAOD.cms.miniaod.local_dataset import CMSRun2miniAODDataset
    return CMSRun2miniAODDataset, "Muons", None


SECOND_DIRS = ["d2", "d1_more", "d1/sub"]      # an unrelated sibling, a sibling whose PATH STRING extends the first one's, a sub-directory


def _setup(nfiles, second_dir_for, missing, second_kind=0):
    shutil.rmtree(BASE, ignore_errors=True)
    (BASE / "d1").mkdir(parents=True)
    for sd in SECOND_DIRS:
        (BASE / sd).mkdir(parents=True, exist_ok=True)
    (BASE / "out").mkdir(parents=True)
    files = []
    second = SECOND_DIRS[0]
    k = 0
    while k < len(SECOND_DIRS):
        if k == second_kind:
            second = SECOND_DIRS[k]
        k += 1
    for i in range(nfiles):
        d = BASE / (second if i == second_dir_for else "d1")
        f = d / f"file{i}.root"
        if i != missing:
            f.write_text("data")
        files.append(f)
    return files


def _query(coll, md_image):
    src = "EventDataset('ds')"
    if md_image is not None:
        src = f"MetaData({src}, {{'metadata_type': 'docker', 'image': {md_image!r}}})"
    return ast.parse(f"Select({src}, lambda e: e.{coll}('A').Count())", mode="eval").body


def _run(backend, nfiles, second_dir_for, missing, image, tag, has_md, give_out, nchunks, stderr_first, fail_after, write_result, tempdir_known,
         write_early=False, md_images=None, second_kind=0):
    cls, coll, cache = _dataset_class(backend)
    files = _setup(nfiles, second_dir_for, missing, second_kind)
    SCENARIO.reset()
    SCENARIO.chunks = [(("stderr" if (stderr_first and i == 0) else "stdout"), b"line") for i in range(nchunks)]
    SCENARIO.fail_after = fail_after if fail_after >= 0 else None
    SCENARIO.write_result = write_result
    SCENARIO.write_early = write_early
    _DetTempDir.created = []
    tempfile.tempdir = str(BASE) if tempdir_known else None
    out_dir = BASE / "out"
    try:
        ds = cls(files, docker_image=image, docker_tag=tag, output_directory=out_dir if give_out else None)
    except FileNotFoundError:
        return missing >= 0 and missing < nfiles and SCENARIO.calls == []
    except Exception:
        return False
    if 0 <= missing < nfiles:
        return False                                   # a missing file must be refused by the constructor
    md_image = "from/metadata:9" if has_md else None
    if md_images is not None:
        # several docker metadata blocks, innermost first; which POSITION wins was observed with pairwise different images
        src = "EventDataset('ds')"
        for im in md_images[0]:
            src = f"MetaData({src}, {{'metadata_type': 'docker', 'image': {im!r}}})"
        qry = ast.parse(f"Select({src}, lambda e: e.{coll}('A').Count())", mode="eval").body
        md_image = md_images[0][md_images[1]]
        has_md = True
    else:
        qry = _query(coll, md_image)
    coro = ds.execute_result_async(qry, "title")
    result = None
    raised = None
    try:
        coro.send(None)
        return False                                   # the coroutine has no awaits: it must finish at once
    except StopIteration as stop:
        result = stop.value
    except Exception as e:
        raised = e
    leftovers = [d for d in _DetTempDir.created if os.path.exists(d)]
    if leftovers:
        return False                                   # the temporary working directory is removed in every case
    different_dirs = 0 <= second_dir_for < nfiles and nfiles > 1
    data_dir = files[0].parent
    if different_dirs:
        # error before any container starts
        return isinstance(raised, RuntimeError) and SCENARIO.calls == []
    if len(SCENARIO.calls) != 1:
        return False
    call = SCENARIO.calls[0]
    want_image = md_image if has_md else image + ":" + tag
    if call["image"] != want_image:
        return False
    if SCENARIO.filelist_seen != "".join(f"/data/file{i}.root\n" for i in range(nfiles)):
        return False
    vols = call["volumes"]
    pkg = vols[0][0]
    want_vols = [(pkg, "/scripts", "ro"), (pkg, "/results", "rw"), (data_dir, "/data/", "ro")]
    if cache is not None:
        want_vols.append(cache)
    if vols != want_vols or call["command"] != ["/scripts/runner.sh"] or call["remove"] is not True:
        return False
    container_fails = SCENARIO.fail_after is not None
    if container_fails:
        # the error propagates, nothing is returned and nothing is delivered to the requested output directory
        return isinstance(raised, python_on_whales.exceptions.DockerException) and result is None and not (out_dir / "ANALYSIS.root").exists()
    if not write_result:
        return raised is not None and result is None   # missing result file -> raises
    if raised is not None or result is None or len(result) != 1:
        return False
    want_dir = out_dir if give_out else Path(tempfile.gettempdir())
    got = Path(result[0])
    return got == want_dir / "ANALYSIS.root" and got.read_bytes() == b"ROOTFILE"


def constructor_validates_files(backend: int, nfiles: int, missing: int) -> bool:
    """
    pre: 0 <= backend <= 2 and 1 <= nfiles <= 3 and -1 <= missing <= 2
    post: _
    """
    return _run(backend, nfiles, -1, missing, "img", "t1", False, True, 0, False, -1, True, True)


def _same_directory_required(backend, nfiles, second_dir_for, second_kind):
    return _run(backend, nfiles, second_dir_for, -1, "img", "t1", False, True, 1, False, -1, True, True, second_kind=second_kind)


def image_selection(backend: int, image: str, tag: str, has_md: bool) -> bool:
    """
    pre: 0 <= backend <= 2 and 1 <= len(image) <= 3 and 1 <= len(tag) <= 2
    post: _
    """
    return _run(backend, 1, -1, -1, image, tag, has_md, True, 0, False, -1, True, True)


def _container_outcomes(backend, nchunks, stderr_first, fail_after, write_result, give_out):
    return _run(backend, 2, -1, -1, "img", "t1", False, give_out, nchunks, stderr_first, fail_after, write_result, True)


def fresh_process_tempdir(backend: int, give_out: bool, tempdir_known: bool) -> bool:
    """
    pre: 0 <= backend <= 2
    post: _
    """
    # in a fresh process tempfile.tempdir is None until gettempdir() has been called once
    return _run(backend, 1, -1, -1, "img", "t1", False, give_out, 0, False, -1, True, tempdir_known)


def container_fails_after_writing(backend: int, nchunks: int, fail_after: int, give_out: bool) -> bool:
    """
    pre: 0 <= backend <= 2 and 0 <= nchunks <= 2 and 0 <= fail_after <= 2
    post: _
    """
    # the job wrote its output file and THEN the container failed (at any chunk): still an error, nothing returned
    return _run(backend, 1, -1, -1, "img", "t", False, give_out, nchunks, False, fail_after, True, True, write_early=True)


def _winning_position(backend):
    "which of three pairwise different docker metadata blocks supplies the image (observed once, concretely)"
    imgs = ["d0/i:0", "d1/i:1", "d2/i:2"]
    for k in range(3):
        if _run(backend, 1, -1, -1, "img", "t", False, True, 0, False, -1, True, True, md_images=(imgs, k)):
            return k
    return -1


def _docker_metadata_position_only(backend, i0, i1, i2):
    # the block that wins is decided by its position in the query, not by which blocks happen to be equal (A,B,A / A,A,B / ...)
    k = _winning_position(backend)
    if k < 0:
        return False
    two = ["reg.example/a:1", "other/b:2"]
    imgs = [two[i0], two[i1], two[i2]]
    return _run(backend, 1, -1, -1, "img", "t", False, True, 0, False, -1, True, True, md_images=(imgs, k))


# ---- the three heaviest conditions, one per value of their first enumerated parameter (they run in parallel)

def same_directory_required_k0(backend: int, nfiles: int, second_dir_for: int) -> bool:
    """
    pre: 0 <= backend <= 2 and 1 <= nfiles <= 3 and -1 <= second_dir_for <= 2
    post: _
    """
    return _same_directory_required(backend, nfiles, second_dir_for, 0)


def container_outcomes_b0(nchunks: int, stderr_first: bool, fail_after: int, write_result: bool, give_out: bool) -> bool:
    """
    pre: 0 <= nchunks <= 2 and -1 <= fail_after <= 2
    post: _
    """
    return _container_outcomes(0, nchunks, stderr_first, fail_after, write_result, give_out)


def docker_metadata_position_only_b0(i0: int, i1: int, i2: int) -> bool:
    """
    pre: 0 <= i0 <= 1 and 0 <= i1 <= 1 and 0 <= i2 <= 1
    post: _
    """
    return _docker_metadata_position_only(0, i0, i1, i2)

def same_directory_required_k1(backend: int, nfiles: int, second_dir_for: int) -> bool:
    """
    pre: 0 <= backend <= 2 and 1 <= nfiles <= 3 and -1 <= second_dir_for <= 2
    post: _
    """
    return _same_directory_required(backend, nfiles, second_dir_for, 1)


def container_outcomes_b1(nchunks: int, stderr_first: bool, fail_after: int, write_result: bool, give_out: bool) -> bool:
    """
    pre: 0 <= nchunks <= 2 and -1 <= fail_after <= 2
    post: _
    """
    return _container_outcomes(1, nchunks, stderr_first, fail_after, write_result, give_out)


def docker_metadata_position_only_b1(i0: int, i1: int, i2: int) -> bool:
    """
    pre: 0 <= i0 <= 1 and 0 <= i1 <= 1 and 0 <= i2 <= 1
    post: _
    """
    return _docker_metadata_position_only(1, i0, i1, i2)

def same_directory_required_k2(backend: int, nfiles: int, second_dir_for: int) -> bool:
    """
    pre: 0 <= backend <= 2 and 1 <= nfiles <= 3 and -1 <= second_dir_for <= 2
    post: _
    """
    return _same_directory_required(backend, nfiles, second_dir_for, 2)


def container_outcomes_b2(nchunks: int, stderr_first: bool, fail_after: int, write_result: bool, give_out: bool) -> bool:
    """
    pre: 0 <= nchunks <= 2 and -1 <= fail_after <= 2
    post: _
    """
    return _container_outcomes(2, nchunks, stderr_first, fail_after, write_result, give_out)


def docker_metadata_position_only_b2(i0: int, i1: int, i2: int) -> bool:
    """
    pre: 0 <= i0 <= 1 and 0 <= i1 <= 1 and 0 <= i2 <= 1
    post: _
    """
    return _docker_metadata_position_only(2, i0, i1, i2)


def _one_query(ds, coll, md_image):
    "run one query on an existing dataset object -> (result, raised)"
    coro = ds.execute_result_async(_query(coll, md_image), "title")
    try:
        coro.send(None)
        return None, RuntimeError("coroutine did not finish")
    except StopIteration as stop:
        return stop.value, None
    except Exception as e:
        return None, e


def _two_queries(backend, image, tag, first_md, second_md, first_fails, third):
    """Several queries on ONE dataset object: each runs the image ITS OWN docker metadata names, otherwise the dataset's
    image:tag - whatever the queries before it carried, and whether or not the one before it failed."""
    cls, coll, cache = _dataset_class(backend)
    files = _setup(1, -1, -1)
    _DetTempDir.created = []
    tempfile.tempdir = str(BASE)
    try:
        ds = cls(files, docker_image=image, docker_tag=tag, output_directory=BASE / "out")
    except Exception:
        return False
    plan = [("first/md:1" if first_md else None, first_fails), ("second/md:2" if second_md else None, False)]
    if third:
        plan.append((None, False))
    for md_image, fails in plan:
        SCENARIO.reset()
        SCENARIO.chunks = []
        SCENARIO.fail_after = 0 if fails else None
        SCENARIO.write_result = True
        SCENARIO.write_early = False
        result, raised = _one_query(ds, coll, md_image)
        if len(SCENARIO.calls) != 1:
            return False
        if SCENARIO.calls[0]["image"] != (md_image if md_image is not None else image + ":" + tag):
            return False
        if fails:
            if raised is None or result is not None:
                return False
        elif raised is not None or result is None or len(result) != 1:
            return False
        if [d for d in _DetTempDir.created if os.path.exists(d)]:
            return False
    return True


def two_queries_one_dataset(backend: int, first_md: bool, second_md: bool, first_fails: bool, third: bool) -> bool:
    """
    pre: 0 <= backend <= 2
    post: _
    """
    return _two_queries(backend, "img", "t1", first_md, second_md, first_fails, third)


def two_queries_one_dataset_image(image: str, tag: str, first_md: bool) -> bool:
    """
    pre: 1 <= len(image) <= 2 and 1 <= len(tag) <= 2
    post: _
    """
    return _two_queries(0, image, tag, first_md, False, False, False)
