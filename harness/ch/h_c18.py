"""C18 harness (helpers + numeric conditions; the string conditions are generated per length by
tools/gen_c18_harness.py into h_c18_s<k>.py): constants through the REAL translator (apply_ast_transformations + visitor + emitter).
Each condition: either translation raises, or the C++ literal at the position denotes exactly the
python constant (read back with an independent C++ string-literal lexer)."""
from h_common import BS, DQ, build, cpp_string_value, extract_literal, translate


def _find(lines, needle):
    for ln in lines:
        if needle in ln:
            return ln
    return None


def _between(line, a, b):
    i = line.find(a)
    if i < 0:
        return None
    j = line.rfind(b)
    if j < i + len(a):
        return None
    return line[i + len(a):j]


def _ident(name: str) -> bool:
    if len(name) == 0:
        return False
    ok = "abcdefghijklmnopqrstuvwxyzABCDEFGHIJKLMNOPQRSTUVWXYZ0123456789_"
    for c in name:
        if c not in ok:
            return False
    return name[0] not in "0123456789"


def _bank(s, backend):
    coll = "Jets" if backend == "atlas" else "Muons"
    a = build(f"Select(EventDataset('ds'), lambda e: e.{coll}('@s').Count())", s=s)
    try:
        q, b, decl, rep = translate(a, backend)
    except Exception:
        return True                      # a literal that cannot be represented is rejected: fine
    if backend == "atlas":
        ln = _find(q, "evtStore()->retrieve(result, ")
        lit = extract_literal(ln, "ANA_CHECK (evtStore()->retrieve(result, ", "));") if ln else None
    elif backend == "cms_aod":
        ln = _find(q, "iEvent.getByLabel(")
        lit = extract_literal(ln, "iEvent.getByLabel(", ", result);") if ln else None
    else:
        ln = _find(b, "edm::InputTag(")
        lit = _between(ln, "edm::InputTag(", "));") if ln else None
    return lit is not None and cpp_string_value(lit) == s


def bank_atlas(s: str) -> bool:
    return _bank(s, "atlas")


def bank_cms_aod(s: str) -> bool:
    return _bank(s, "cms_aod")


def bank_cms_miniaod(s: str) -> bool:
    return _bank(s, "cms_miniaod")


def method_string_argument(s: str) -> bool:
    a = build("Select(EventDataset('ds'), lambda e: e.Jets('A').Select(lambda j: j.tag('@s')))", s=s)
    try:
        q, b, decl, rep = translate(a, "atlas")
    except Exception:
        return True
    ln = _find(q, "->tag(")
    lit = _between(ln, "->tag(", "));") if ln else None
    return lit is not None and cpp_string_value(lit) == s


def attribute_name_argument(s: str) -> bool:
    a = build("Select(EventDataset('ds'), lambda e: e.Jets('A').Select(lambda j: j.getAttributeFloat('@s')))", s=s)
    try:
        q, b, decl, rep = translate(a, "atlas")
    except Exception:
        return True
    ln = _find(q, "getAttribute<float>(")
    lit = _between(ln, "getAttribute<float>(", ");") if ln else None
    return lit is not None and cpp_string_value(lit) == s


def _column(s, backend):
    coll = "Jets" if backend == "atlas" else "Muons"
    a = build(f"Select(EventDataset('ds'), lambda e: {{'@s': e.{coll}('A').Count()}})", s=s)
    try:
        q, b, decl, rep = translate(a, backend)
    except Exception:
        return True
    ln = _find(b, "myTree->Branch(")
    if ln is None:
        return False
    lit = _between(ln, "myTree->Branch(", ", &")
    member = _between(ln, ", &", ");")
    if lit is None or member is None or cpp_string_value(lit) != s:
        return False
    # the storage bound to the branch must be a C++ identifier, declared once with that very name
    if not _ident(member):
        return False
    return sum(1 for d in decl if d == "int " + member + ";" + chr(10)) == 1 and sum(1 for d in decl if member + ";" in d) == 1


def column_name_atlas(s: str) -> bool:
    return _column(s, "atlas")


def column_name_cms_aod(s: str) -> bool:
    return _column(s, "cms_aod")


def column_name_cms_miniaod(s: str) -> bool:
    return _column(s, "cms_miniaod")


def tree_name_atlas(s: str) -> bool:
    a = build("ResultTTree(Select(EventDataset('ds'), lambda e: e.Jets('A').Count()), 'c', '@s', 'f.root')", s=s)
    try:
        q, b, decl, rep = translate(a, "atlas")
    except Exception:
        return True
    l1 = _find(b, "ANA_CHECK (book (TTree (")
    l2 = _find(b, "auto myTree = tree (")
    l3 = _find(q, ")->Fill();")
    if l1 is None or l2 is None or l3 is None:
        return False
    t1 = extract_literal(l1, "ANA_CHECK (book (TTree (", ", " + DQ + "My analysis ntuple" + DQ + ")));")
    t2 = extract_literal(l2, "auto myTree = tree (", ");")
    t3 = extract_literal(l3, "tree(", ")->Fill();")
    if t1 is None or t2 is None or t3 is None:
        return False
    return cpp_string_value(t1) == s and cpp_string_value(t2) == s and cpp_string_value(t3) == s and rep.treename == s


def tree_name_cms(s: str) -> bool:
    a = build("ResultTTree(Select(EventDataset('ds'), lambda e: e.Muons('A').Count()), 'c', '@s', 'f.root')", s=s)
    try:
        q, b, decl, rep = translate(a, "cms_aod")
    except Exception:
        return True
    l1 = _find(b, "myTree = fs->make<TTree>(")
    if l1 is None:
        return False
    t1 = extract_literal(l1, "myTree = fs->make<TTree>(", ", " + DQ + "My analysis ntuple" + DQ + ");")
    return t1 is not None and cpp_string_value(t1) == s and rep.treename == s


def first_failure_message(s: str) -> bool:
    a = build("Select(EventDataset('ds'), lambda e: e.Jets('@s').First().pt())", s=s)
    try:
        q, b, decl, rep = translate(a, "atlas")
    except Exception:
        return True
    ln = _find(q, "throw std::runtime_error(")
    if ln is None:
        return False
    lit = extract_literal(ln, "throw std::runtime_error(", ");")
    return lit is not None and cpp_string_value(lit) is not None


def _render_constant(value):
    "the real visit_Constant on one constant: (C++ text, C++ type name) or None if it raises"
    import ast
    from func_adl_xAOD.atlas.xaod.query_ast_visitor import atlas_xaod_query_ast_visitor
    import func_adl_xAOD.common.cpp_representation as crep
    qv = atlas_xaod_query_ast_visitor()
    node = ast.Constant(value=value)
    try:
        qv.visit_Constant(node)
    except Exception:
        return None
    r = crep.get_rep(node)
    return r.as_cpp(), r.cpp_type().type


def _unparen(txt):
    "a numeric literal may be emitted inside one pair of parentheses"
    return txt[1:-1] if len(txt) >= 2 and txt[0] == "(" and txt[-1] == ")" else txt


def int_constant(v: int) -> bool:
    """
    post: _
    """
    r = _render_constant(v)
    if r is None:
        return True
    txt, ty = r
    txt = _unparen(txt)
    try:
        back = int(txt)
    except ValueError:
        return False
    # the literal must denote v and fit the C++ type it is given
    if back != v:
        return False
    if ty == "int":
        return -2147483648 <= v <= 2147483647
    return ty in ("long", "long long", "int64_t")


def int_constant_32bit(v: int) -> bool:
    """
    pre: -2147483648 <= v <= 2147483647
    post: _
    """
    return int_constant(v)


def bool_constant(v: bool) -> bool:
    """
    post: _
    """
    r = _render_constant(v)
    return r == (("true" if v else "false"), "bool")


def float_constant_finite(v: float) -> bool:
    """
    pre: v == v and v != float("inf") and v != float("-inf")
    post: _
    """
    r = _render_constant(v)
    if r is None:
        return True
    txt, ty = r
    return ty == "double" and float(_unparen(txt)) == v


def float_constant_any(v: float) -> bool:
    """
    post: _
    """
    r = _render_constant(v)
    if r is None:
        return True
    txt, ty = r
    # a C++ floating literal cannot spell nan or inf: those must be rejected
    if v != v or v in (float("inf"), float("-inf")):
        return False
    return ty == "double" and float(_unparen(txt)) == v


def literal_kernel(s):
    "the function every string position goes through (cpp_vars.cpp_string_literal), read back with the oracle's C++ literal lexer"
    try:
        from func_adl_xAOD.common.cpp_vars import cpp_string_literal
    except ImportError:
        return True          # the translator no longer has this function: nothing to say here (positions are checked through the pipeline)
    from h_common import cpp_string_value
    return cpp_string_value(cpp_string_literal(s)) == s
