"""Shared helpers of the CrossHair harnesses: run the REAL translator on a query whose string /
integer constants are the harness' (symbolic) arguments, and read back the emitted lines."""
import ast
import logging
import re as _re

import func_adl_xAOD.common.cpp_ast as cpp_ast
import func_adl_xAOD.common.cpp_types as ctyp
from func_adl_xAOD.common.executor import _cpp_source_emitter
from func_adl_xAOD.common.util_scope import top_level_scope
import func_adl_xAOD.common.cpp_representation as crep

logging.disable(logging.CRITICAL)

BS = chr(92)
DQ = chr(34)


class _ReShim:
    """`re` for cpp_ast with a sub() that keeps a symbolic replacement symbolic: matches are located
    with the real re.finditer on the (concrete) pattern and subject, the replacement is expanded by a
    pure-Python model of re's template rules (or called, when it is a function)."""
    escape = staticmethod(_re.escape)
    compile = staticmethod(_re.compile)
    error = _re.error

    @staticmethod
    def sub(pattern, repl, string, count=0, flags=0):
        if type(string) is not str or type(pattern) is not str:
            return _re.sub(pattern, repl, string, count, flags)
        out = []
        last = 0
        for m in _re.finditer(pattern, string, flags):
            out.append(string[last:m.start()])
            out.append(repl(m) if callable(repl) else expand_template(repl))
            last = m.end()
        out.append(string[last:])
        return "".join(out)


def expand_template(repl):
    "python re replacement-template semantics for a template without group references"
    if BS not in repl:
        return repl
    res = []
    i = 0
    n = len(repl)
    esc = {"n": chr(10), "t": chr(9), "r": chr(13), "f": chr(12), "v": chr(11), "a": chr(7), "b": chr(8), BS: BS}
    while i < n:
        c = repl[i]
        if c != BS:
            res.append(c)
            i += 1
            continue
        if i + 1 >= n:
            raise _re.error("bad escape (end of pattern)")
        d = repl[i + 1]
        if d in esc:
            res.append(esc[d])
            i += 2
        elif d == "g" or d.isdigit():
            raise _re.error("group reference")
        elif d.isascii() and d.isalpha():
            raise _re.error("bad escape")
        else:
            res.append(c)
            res.append(d)
            i += 2
    return "".join(res)


def shim_selfcheck():
    "compare the shim with the real re.sub on a concrete battery (trusted-base check, run by the check)"
    import re
    pat = r"\bcollection_name\b"
    subj = 'ANA_CHECK (evtStore()->retrieve(result, collection_name)); // collection_name x'
    for r in ['"A"', '"a b"', '"q' + BS + BS + 'x"', '"t' + BS + 'n"', '"' + BS + '""', "é", '"' + BS + '.x"']:
        try:
            want = re.sub(pat, r, subj)
        except re.error:
            want = "ERR"
        try:
            got = _ReShim.sub(pat, r, subj)
        except re.error:
            got = "ERR"
        if want != got:
            return False
    return True


cpp_ast.re = _ReShim


def make_executor(backend):
    if backend == "atlas":
        from func_adl_xAOD.atlas.xaod.executor import atlas_xaod_executor
        return atlas_xaod_executor()
    if backend == "cms_aod":
        from func_adl_xAOD.cms.aod.executor import cms_aod_executor
        return cms_aod_executor()
    from func_adl_xAOD.cms.miniaod.executor import cms_miniaod_executor
    return cms_miniaod_executor()


def build(template: str, **consts):
    """Parse `template` (query source with placeholder string constants '@name') and replace each
    placeholder constant by the given (possibly symbolic) value."""
    tree = ast.parse(template, mode="eval").body

    class T(ast.NodeTransformer):
        def visit_Constant(self, node):
            if isinstance(node.value, str) and node.value.startswith("@") and node.value[1:] in consts:
                return ast.Constant(value=consts[node.value[1:]])
            return node
    return T().visit(tree)


def translate(a, backend="atlas"):
    """Run the real visitor (no jinja2: CrossHair cannot keep strings symbolic through it) and return
    (query lines, booking lines, class declaration lines, result rep)."""
    ctyp.g_method_type_dict = {}
    ctyp.g_toplevel_ns = {}
    exe = make_executor(backend)
    a = exe.apply_ast_transformations(a)
    from func_adl import find_EventDataset
    file = find_EventDataset(a)
    iterator = crep.cpp_variable("bogus-do-not-use", top_level_scope(), cpp_type=None)
    crep.set_rep(file, crep.cpp_sequence(iterator, iterator, top_level_scope(), file))
    qv = exe.get_visitor_obj()
    from func_adl_xAOD.common.executor import _is_format_request
    result_rep = qv.get_rep(a) if _is_format_request(a) else qv.get_as_ROOT(a)
    q = _cpp_source_emitter()
    qv.emit_query(q)
    b = _cpp_source_emitter()
    qv.emit_book(b)
    exe.reset()
    return [ln.strip() for ln in q.lines_of_query_code()], [ln.strip() for ln in b.lines_of_query_code()], qv.class_declaration_code(), result_rep


def cpp_string_value(lit: str):
    """Value denoted by the C++ narrow string literal `lit` (with its quotes), or None if `lit` is not
    exactly one well-formed literal.  Written for the oracle; independent of the translator."""
    if len(lit) < 2 or lit[0] != DQ or lit[-1] != DQ:
        return None
    s = lit[1:-1]
    out = []
    i = 0
    n = len(s)
    simple = {"n": chr(10), "t": chr(9), "r": chr(13), "0": chr(0), BS: BS, DQ: DQ, "'": "'", "a": chr(7), "b": chr(8),
              "f": chr(12), "v": chr(11), "?": "?"}
    while i < n:
        ch = s[i]
        if ch == DQ or ch == chr(10) or ch == chr(13):
            return None                       # unescaped quote / raw newline: not one literal
        if ch == BS:
            if i + 1 >= n:
                return None
            nx = s[i + 1]
            if nx in "01234567":
                j = i + 1
                v = 0
                while j < n and j < i + 4 and s[j] in "01234567":
                    v = v * 8 + int(s[j])
                    j += 1
                out.append(chr(v & 255))
                i = j
                continue
            if nx == "x":
                j = i + 2
                v = 0
                if j >= n or s[j] not in "0123456789abcdefABCDEF":
                    return None
                while j < n and s[j] in "0123456789abcdefABCDEF":
                    v = v * 16 + int(s[j], 16)
                    j += 1
                out.append(chr(v & 255))
                i = j
                continue
            if nx not in simple:
                return None
            out.append(simple[nx])
            i += 2
            continue
        out.append(ch)
        i += 1
    return "".join(out)


def extract_literal(line: str, prefix: str, suffix: str):
    "the text between prefix and suffix of line, or None"
    if not (line.startswith(prefix) and line.endswith(suffix)) or len(line) < len(prefix) + len(suffix):
        return None
    return line[len(prefix):len(line) - len(suffix)]
