"""Stand-in for python_on_whales used by the C17 check (the real package is not installed here).
docker.run records its arguments and behaves as the scenario installed in `SCENARIO` says."""
from . import exceptions  # noqa: F401


class _Scenario:
    def __init__(self):
        self.reset()

    def reset(self):
        self.calls = []            # recorded docker.run invocations
        self.chunks = []           # list of (stream_type, bytes)
        self.fail_after = None     # raise DockerException after yielding this many chunks (None = no failure)
        self.write_result = True   # container writes ANALYSIS.root into the /results mount
        self.write_early = False   # ... and does so BEFORE it streams its output / fails (a job that crashes in teardown)
        self.result_content = b"ROOTFILE"
        self.filelist_seen = None


SCENARIO = _Scenario()


class _Docker:
    def run(self, image, command=(), volumes=(), remove=False, stream=False, **kw):
        SCENARIO.calls.append({"image": image, "command": list(command), "volumes": [tuple(v) for v in volumes], "remove": remove, "stream": stream, "extra": dict(kw)})
        scripts = None
        results = None
        for v in volumes:
            if len(v) >= 2 and v[1] == "/scripts":
                scripts = v[0]
            if len(v) >= 2 and v[1] == "/results":
                results = v[0]
        try:
            import os
            with open(os.path.join(str(scripts), "filelist.txt")) as f:
                SCENARIO.filelist_seen = f.read()
        except Exception:
            SCENARIO.filelist_seen = None

        def _write():
            import os
            with open(os.path.join(str(results), "ANALYSIS.root"), "wb") as f:
                f.write(SCENARIO.result_content)

        def gen():
            n = 0
            if SCENARIO.write_early and SCENARIO.write_result and results is not None:
                _write()
            for c in SCENARIO.chunks:
                if SCENARIO.fail_after is not None and n == SCENARIO.fail_after:
                    raise exceptions.DockerException(["docker", "run"], 1)
                yield c
                n += 1
            if SCENARIO.fail_after is not None and n <= SCENARIO.fail_after:
                raise exceptions.DockerException(["docker", "run"], 1)
            if SCENARIO.write_result and results is not None and not SCENARIO.write_early:
                _write()
        return gen()


docker = _Docker()
