class DockerException(Exception):
    def __init__(self, command_launched=None, return_code=1, stdout=None, stderr=None):
        self.docker_command = command_launched
        self.return_code = return_code
        super().__init__(f"The docker command executed was `{command_launched}`. It returned with code {return_code}")
