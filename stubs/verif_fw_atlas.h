// ATLAS AnalysisBase stand-in for replay.
#pragma once
#include "verif_rt.h"
struct StatusCode {
  int v;
  static const StatusCode SUCCESS; static const StatusCode FAILURE;
  bool isSuccess() const { return v == 0; }
};
inline const StatusCode StatusCode::SUCCESS{0};
inline const StatusCode StatusCode::FAILURE{1};
// message macros of AsgMessaging: stream syntax, no effect on the job's outcome
#include <sstream>
#define VERIF_MSG(x) do { std::ostringstream verif_msg_s; verif_msg_s << x; } while (0)
#define ANA_MSG_WARNING(x) VERIF_MSG(x)
#define ANA_MSG_INFO(x) VERIF_MSG(x)
#define ANA_MSG_ERROR(x) VERIF_MSG(x)
#define ANA_MSG_DEBUG(x) VERIF_MSG(x)
#define ANA_MSG_VERBOSE(x) VERIF_MSG(x)
#define ANA_CHECK(x) do { if (!(x).isSuccess()) return StatusCode::FAILURE; } while (0)
struct ISvcLocator {};
namespace xAOD { struct TFileAccessTracer { static void enableDataSubmission(bool) {} }; }
struct VerifEvtStore;   // generated per data model (verif_model.h)
VerifEvtStore* verif_store();
namespace EL {
struct AnaAlgorithm {
  AnaAlgorithm(const std::string&, ISvcLocator*) {}
  virtual ~AnaAlgorithm() {}
  std::map<std::string, TTree*> trees;
  StatusCode book(const TTree& t) {
    if (trees.count(t.name)) vrt::fault("throw", "tree booked twice");
    trees[t.name] = new TTree(t); return StatusCode::SUCCESS;
  }
  TTree* tree(const std::string& n) {
    auto it = trees.find(n); if (it == trees.end()) vrt::fault("throw", "unknown tree"); return it->second;
  }
  VerifEvtStore* evtStore() { return verif_store(); }
  virtual StatusCode initialize() = 0;
  virtual StatusCode execute() = 0;
  virtual StatusCode finalize() = 0;
};
}  // namespace EL
