// CMSSW stand-in for replay (AOD r5 and miniAOD r7 templates).
#pragma once
#include "verif_rt.h"
namespace edm {
struct ParameterSet {};
struct EventSetup {};
struct Run {};
struct LuminosityBlock {};
struct ParameterSetDescription { void setUnknown() {} };
struct ConfigurationDescriptions { void addDefault(const ParameterSetDescription&) {} };
struct InputTag { std::string label; explicit InputTag(const std::string& l) : label(l) {} };
template <class T> struct EDGetTokenT { std::string label; bool init = false; };
template <class T> struct Handle {
  std::shared_ptr<T> p;
  bool isValid() const { return (bool)p; }
  const T& operator*() const { if (!p) vrt::fault("throw", "invalid Handle dereferenced"); return *p; }
  const T* operator->() const { if (!p) vrt::fault("throw", "invalid Handle dereferenced"); return p.get(); }
};
template <class T> struct StoreName;    // generated per data model
template <class T> std::shared_ptr<T> verif_fetch(const std::string& type, const std::string& bank);  // generated
struct Event {
  template <class T> bool getByLabel(const std::string& label, Handle<T>& h) const {
    std::cout << "REQUEST getByLabel " << StoreName<T>::n() << " " << label << "\n";
    h.p = verif_fetch<T>(StoreName<T>::n(), label); return (bool)h.p;
  }
  template <class T> bool getByLabel(const InputTag& tag, Handle<T>& h) const { return getByLabel(tag.label, h); }
  template <class T> bool getByToken(const EDGetTokenT<T>& tok, Handle<T>& h) const {
    if (!tok.init) vrt::fault("throw", "getByToken with uninitialised token");
    std::cout << "REQUEST getByToken " << StoreName<T>::n() << " " << tok.label << "\n";
    h.p = verif_fetch<T>(StoreName<T>::n(), tok.label); return (bool)h.p;
  }
};
struct EDAnalyzerBase {
  virtual ~EDAnalyzerBase() {}
  template <class T> EDGetTokenT<T> consumes(const InputTag& t) { EDGetTokenT<T> k; k.label = t.label; k.init = true; return k; }
};
struct EDAnalyzer : EDAnalyzerBase {
  virtual void beginJob() {}
  virtual void analyze(const Event&, const EventSetup&) = 0;
  virtual void endJob() {}
};
namespace one {
struct SharedResources {};
template <class... T> struct EDAnalyzer : edm::EDAnalyzerBase {
  virtual void beginJob() {}
  virtual void analyze(const edm::Event&, const edm::EventSetup&) = 0;
  virtual void endJob() {}
};
}  // namespace one
template <class T> struct Service { T* operator->() { static T t; return &t; } };
}  // namespace edm
struct TFileService {
  template <class T, class... A> T* make(A... a) { return new T(a...); }
};
#define DEFINE_FWK_MODULE(x)
