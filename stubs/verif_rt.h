// Runtime for replaying rendered func_adl_xAOD packages on concrete events (verification stub).
#pragma once
#include <cmath>
#include <csignal>
#include <cstdio>
#include <cstdlib>
#include <deque>
#include <functional>
#include <iostream>
#include <map>
#include <memory>
#include <numeric>
#include <stdexcept>
#include <string>
#include <unistd.h>
#include <vector>

namespace vrt {
struct TEntry { std::vector<double> k; double v; };
struct TTable { std::vector<TEntry> e; double els = 0; };
struct StoreEntry { bool present; int n; long base; };
struct EventData {
  std::map<std::string, TTable> tables;
  std::map<std::pair<std::string, std::string>, StoreEntry> store;
};
inline EventData*& cur() { static EventData* p = nullptr; return p; }
inline std::map<std::string, double>& strings() { static std::map<std::string, double> s; return s; }

inline double tbl(const std::string& name, const std::vector<double>& a) {
  auto it = cur()->tables.find(name + "/" + std::to_string(a.size()));
  if (it == cur()->tables.end()) return 0;
  for (auto& e : it->second.e) if (e.k == a) return e.v;
  return it->second.els;
}
inline double arg(double x) { return x; }
inline double arg(float x) { return x; }
inline double arg(int x) { return x; }
inline double arg(long x) { return (double)x; }
inline double arg(unsigned x) { return x; }
inline double arg(bool x) { return x ? 1 : 0; }
inline double arg(const char* s) { auto it = strings().find(s); return it == strings().end() ? -1 : it->second; }
inline double arg(const std::string& s) { return arg(s.c_str()); }

[[noreturn]] inline void fault(const char* kind, const char* what) {
  std::cout << "FAULT " << kind << " " << what << std::endl;
  std::cout.flush();
  _exit(0);
}
inline void segv_handler(int) { const char m[] = "FAULT nullderef segv\n"; (void)!write(1, m, sizeof(m) - 1); _exit(0); }

template <class T> inline void dumpv(std::ostream& o, const T& v) { char b[64]; snprintf(b, sizeof b, "%.17g", (double)v); o << b; }
inline void dumpv(std::ostream& o, const bool& v) { o << (v ? "true" : "false"); }
inline void dumpv(std::ostream& o, const int& v) { o << v; }
template <class T> inline void dumpv(std::ostream& o, const std::vector<T>& v) {
  o << "["; for (size_t i = 0; i < v.size(); ++i) { if (i) o << ","; dumpv(o, v[i]); } o << "]";
}
inline void dumpv(std::ostream& o, const std::vector<bool>& v) {
  o << "["; for (size_t i = 0; i < v.size(); ++i) { if (i) o << ","; o << (v[i] ? "true" : "false"); } o << "]";
}
template <class T> struct tyname { static const char* n() { return "?"; } };
template <> struct tyname<double> { static const char* n() { return "double"; } };
template <> struct tyname<float> { static const char* n() { return "float"; } };
template <> struct tyname<int> { static const char* n() { return "int"; } };
template <> struct tyname<bool> { static const char* n() { return "bool"; } };
template <class T> struct tyname<std::vector<T>> { static const char* n() { static std::string s = std::string("vector<") + tyname<T>::n() + ">"; return s.c_str(); } };
}  // namespace vrt

struct TBranchRec { std::string name; std::function<void(std::ostream&)> dump; };
struct TTree {
  std::string name; std::vector<TBranchRec> br;
  TTree(const char* n, const char*) : name(n) {}
  TTree(const std::string& n, const std::string&) : name(n) {}
  template <class T> void Branch(const char* n, T* p) {
    std::cout << "BRANCH " << name << " " << n << " " << vrt::tyname<T>::n() << "\n";
    br.push_back({n, [p](std::ostream& o) { vrt::dumpv(o, *p); }});
  }
  void Fill() {
    std::cout << "ROW " << name;
    for (auto& b : br) { std::cout << " " << b.name << "="; b.dump(std::cout); }
    std::cout << "\n";
  }
};
struct TVector2 {
  static double Phi_mpi_pi(double x) {
    if (x >= -M_PI && x < M_PI) return x;
    double r = std::fmod(x + M_PI, 2 * M_PI); if (r < 0) r += 2 * M_PI; return r - M_PI;
  }
};
