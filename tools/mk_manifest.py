#!/usr/bin/env python3
"""Regenerates /verif/MANIFEST.json from the table below (kept in one place so that the
not_applicable list and the engines' serves_properties stay consistent)."""
import json
from pathlib import Path

ROOT = Path(__file__).resolve().parents[1]
TV = "A-tv-smt"
CH = "B-crosshair"
STR = "C-string-smt"
SH = "D-shell-symexec"

CHECKS = {
    "C01": dict(engine=TV, cat="translation_validation",
                technique="SMT translation validation (z3): emitted C++ executed symbolically vs reference LINQ semantics for all events <=N elements/collection; clang replay of counterexamples",
                text="for every enumerated program on all three backends z3 shows rows_cpp == rows_query, no fault when the query is defined and a loud fault when it is not, for ALL events up to N elements per collection (incl. empty, ties, negative values)",
                note="trusted: C++-subset semantics + reference evaluator in vlib/tv (cross-validated against clang-compiled runs on every replayed model); N=3 quick/4 thorough; doubles as reals, float via rf; program space is a bounded enumeration, not solver-quantified",
                ref="DESIGN.md 2, 3/C01"),
    "C02": dict(engine=TV, cat="translation_validation",
                technique="SMT definite-assignment obligations over the symbolically executed emitted C++ (z3) + encoder front-end facts; clang -fsyntax-only only as replay",
                text="solver: no read of an unassigned translator variable on any feasible path, all events within the bound; front end: file set, executable bit, rendered = template static text + slots, one declaration per scope, member access/assignment kinds consistent with the declared data model, needed headers included",
                note="full C++ well-formedness beyond the emitted subset is not claimed; front-end facts are marked as such in evidence; a sample of every family is also analysed as the SECOND package of one executor object; generated-name kernel (cpp_vars.unique_name -> z3 strings)",
                ref="DESIGN.md 3/C02"),
    "C03": dict(engine=TV, cat="translation_validation",
                technique="SMT row-binding equivalence (z3) per terminal form and element kind + schema comparison against the reference evaluator",
                text="for every terminal form x element kind x backend: every column of every filled row equals the query's column expression for all events (binding branch->member->filled value), booked (name, depth, kind) list equals the reference schema, tree name booked=filled=descriptor, count mismatch raises",
                note="column/tree names are concrete here (symbolic names: C18); descriptor file name compared with the literal the runner template delivers and with the file the runner.sh shell model (engine D) delivers on every exit-0 path",
                ref="DESIGN.md 3/C03"),
    "C04": dict(engine=TV, cat="translation_validation",
                technique="SMT fault-equivalence obligations (z3): fault_cpp <=> query undefined, loudness, laziness under symbolic null links / empty collections",
                text="for guarded and unguarded First/index/null-link programs: the job faults loudly exactly when the query is undefined and no fault (incl. null dereference) is reachable when it is defined, for all events within the bound",
                note="null dereference modelled as a silent/UB fault; real crash behaviour only seen in replay",
                ref="DESIGN.md 3/C04"),
    "C05": dict(engine=TV, cat="translation_validation",
                technique="SMT self-composition (z3): per-event code run twice on one symbolic event from two arbitrary pre-states; inductive invariant 'vector columns empty'",
                text="one inductive step: rows and faults are independent of every scalar member / uninitialised local pre-state and the invariant is restored, for all events within the bound - hence for event sequences of any length and order",
                note="reference-free; user C++ assumed pure; counterexamples replayed on concrete histories of E, the empty event E0 and a full event E1; the script-level 'split across jobs' clause is taken from the C16 shell model; front-end fact: the job configuration does not bound the number of events",
                ref="DESIGN.md 3/C05"),
    "C06": dict(engine=TV, cat="other", also=(CH,),
                technique="SMT translation validation with a symbolic event store (z3) + CrossHair on process_metadata / the whole pipeline with a symbolic bank string",
                text="requests = collections the query names with the backend idiom; rows equal; absent collection never dereferenced and fails loudly; bank literal denotes the symbolic bank string on all three backends; malformed declarations/calls rejected; other-backend declarations refused",
                note="frozen collection table is the oracle; bank strings <=1 char quick / <=2 thorough; N=2/3",
                ref="DESIGN.md 3/C06"),
    "C10": dict(engine=CH, cat="other", also=(TV,),
                technique="CrossHair bounded symbolic execution of parse_type / base_type_member_access / dereference_var / define_enum / process_metadata + SMT translation validation over the declaration space",
                text="type parsing equals an independent reference for all printable strings <=4; member access indirection for all p,d<=3; registry round trip; every declaration of the enumerated space type-checks against model classes generated from the same declarations and computes the query's rows",
                note="declaration space enumerated (pointer depth 0..2, deref_count 0..2, collection forms, chains<=3)",
                ref="DESIGN.md 3/C10"),
    "C15": dict(engine=CH, cat="other",
                technique="CrossHair bounded symbolic execution of generate_script_block against an independent topological-order reference; real template render for the insertion point",
                text="every block list of <=2 (quick) / <=3 (thorough) blocks over B names with dependency lists <=2 over B+1 names and two script variants, plus four-entry lists with one repeated name: ValueError exactly on conflict/missing/cycle, otherwise once-each, contiguous, ordered output; the job-options template (jinja2 generated code -> z3 strings, list filters modelled) inserts symbolic lines once, in order, verbatim",
                note="space partitioned into conditions with <=3 symbolic ints (the rest enumerated); CrossHair realises dict keys, so within the bound this is a solver-driven exhaustive exploration",
                ref="DESIGN.md 3/C15"),
    "C16": dict(engine=SH, cat="model_checking",
                technique="forking symbolic execution of the runner.sh bash subset with z3 (symbolic flag operands, exit statuses, filesystem facts), validated against real bash with stub tools",
                text="all flag vectors <=2 tokens (3-4 thorough) x all single-step failures x invocation histories <=2 (3 thorough) for the three scripts: exit codes, phases run, input/destination plumbing, no exit 0 after a failed step, no fresh output after a failure",
                note="model = vlib/sh/shx.py (while loops unrolled 3x, arithmetic expansion, test lists, operands relative to the caller's directory); sampled symbolic paths and every violating path are replayed on real bash; absolute-path branches are model-only",
                ref="DESIGN.md 3/C16"),
    "C18": dict(engine=CH, cat="other", also=(STR, TV),
                technique="CrossHair through the real translator with symbolic string constants per position + z3 obligations generated from the AST of visit_Constant (unbounded ints, float repr regex inclusion) and of cpp_string_literal (inductive step over all code points: every string length) + SMT translation validation of literal interplay",
                text="strings of each exact length (0..1 quick, 0..2/3 thorough, all of Unicode) in every position denote themselves or are rejected; the literal writer alone for strings of every length (z3, inductive step); all integers accepted fit their C++ type; float literal class included in the C++ grammar; several equal-valued literals of different kind keep value and kind",
                note="float value fidelity trusted; re.sub shim for CrossHair is part of the trusted base and self-checked",
                ref="DESIGN.md 3/C18"),
    "C07": dict(engine=TV, cat="translation_validation",
                technique="histories of <=2 operations replayed in freshly forked processes; probe package compared with the fresh-process package by canonical text, otherwise by SMT equivalence (z3) of the two C++ packages for all events",
                text="for every enumerated history (success/failure x declaring method types, enums, collections, C++ functions, job scripts, injected code, docker metadata x same/new executor) and six registry-sensitive probes: same package (or same refusal) as in a fresh process",
                note="histories longer than 2 only through the registry observation after each operation (reported, not claimed); declared names concrete; operations and probes on re-used CMS executors and across backends; text equality up to numbering required even when the packages are proven equivalent",
                ref="DESIGN.md 3/C07"),
    "C08": dict(engine=TV, cat="translation_validation",
                technique="variant enumeration (qastle round trip, capture-avoiding alpha-renamings incl. shadowing and special names, MetaData placement, fused vs separate chains) with canonical-text comparison and SMT equivalence (z3) of differing C++ packages for all events",
                text="every (query, variant) pair yields the same package up to numbering, or packages proven equivalent in schema, rows and faults for all events up to N; accept/reject agrees",
                note="a textual difference that the numbering of generated names does not explain is reported even when engine A proves the packages equivalent (the First() message is a listed finding)",
                ref="DESIGN.md 3/C08"),
    "C09": dict(engine=CH, cat="other", also=(TV,),
                technique="CrossHair on process_metadata (unknown/missing metadata_type, unknown declaration keys via a list-backed Mapping) + observed refusal of every grafted unsupported construct",
                text="solver: all metadata_type strings <=30 chars outside the known set raise, missing type key raises for all key strings, unknown keys raise; observed: ~600 grafts per backend of unsupported constructs into every expression position are all refused",
                note="the graft half has no input quantifier and is an observation per program, stated as such in evidence",
                ref="DESIGN.md 3/C09"),
    "C11": dict(engine=CH, cat="other", also=(TV,),
                technique="CrossHair through the real add_cpp_function pipeline with symbolic actual-argument texts against a token-based simultaneous whole-word substitution reference + SMT translation validation of call sites",
                text="for seven hygiene-sensitive (formals, code) shapes and all actual texts within bounds the emitted block equals the reference substitution, isolated in its own block with a fresh result variable; user functions/methods/collection functions and DeltaR compute their meaning at nested, repeated, guarded and aggregated call sites for all events",
                note="formal names and code lines enumerated (re.compile realises them); actual texts symbolic",
                ref="DESIGN.md 3/C11"),
    "C14": dict(engine=CH, cat="other", also=(STR,),
                technique="CrossHair on inject_code bookkeeping with symbolic names/lines + z3 string equivalence between the Python code jinja2 generates for the real templates and the template source with verbatim lines",
                text="dedup/conflict/order rules for all names and lines <=2 chars; for every field and template the rendered file is the static text with each line verbatim, once, in order, for all line contents <=3 chars (any characters), in the documented region",
                note="region map and the escape abstraction are part of the trusted base; translation of generated code cross-validated against the real jinja2 on every run",
                ref="DESIGN.md 3/C14"),
    "C17": dict(engine=CH, cat="other",
                technique="CrossHair on the real LocalDataset classes with a stand-in python_on_whales, deterministic temp dirs and nondeterministic container outcomes",
                text="file validation, same-directory rule, filelist order, image selection (metadata vs image:tag, symbolic strings; also for the 2nd/3rd query on one dataset object), volumes, failure propagation at any chunk, missing result, result copy, temp dir removal - for all combinations within the bounds",
                note="I/O orchestration code: decision logic under the listed stubs only; template rendering stubbed",
                ref="DESIGN.md 3/C17"),
    "C12": dict(engine=TV, cat="translation_validation",
                technique="SMT equivalence (z3) of the emitted call against the documented function name: interpreted rounding/remainder family, distinct uninterpreted functions otherwise; exhaustive over the README table",
                text="every documented function x {standalone, in arithmetic, in comparison, int argument}: accepted, <cmath> included, value equals the namesake for all argument values",
                note="libm accuracy trusted; remquo/nan have no numeric call form; literal-argument forms included; value-changing floating-point build flags in the shipped build files are detected (witness-compiled)",
                ref="DESIGN.md 3/C12"),
    "C13": dict(engine=TV, cat="translation_validation",
                technique="SMT equivalence (z3) over an exhaustive operator x operand-kind table with typed C++ conversion semantics vs Python numerics",
                text="every cell of {+,-,*,/,%,**,unary,comparisons,conditional,aggregates} x operand kinds: value and column kind equal Python's for all operand values within the magnitude bound",
                note="float via uninterpreted rounding with relative-error axioms; genuine IEEE semantics not modelled",
                ref="DESIGN.md 3/C13"),
}

PENDING = {}

ENGINES = {
    TV: ("vlib/tv", "translation validation: the rendered package is parsed back from disk, its C++ subset executed symbolically (z3, predicated) over a symbolic event and compared with a reference LINQ semantics of the original query; counterexamples are replayed by compiling the real package with clang against generated stubs"),
    CH: ("vlib/ch", "CrossHair (symbolic execution of the repository's own Python functions with z3), one process per condition, concrete replay of every counterexample"),
    STR: ("vlib/strk", "string kernels translated from the Python AST into SMT strings / bounded encodings (cvc5, z3)"),
    SH: ("vlib/sh", "forking symbolic executor for the bash subset of the runner.sh templates with z3, cross-validated against real bash with stub tools"),
}


def main():
    checks = []
    for pid, c in sorted(CHECKS.items()):
        checks.append({
            "property_id": pid,
            "quick_cmd": f"./bin/vcheck {pid} --tier quick",
            "thorough_cmd": f"./bin/vcheck {pid} --tier thorough",
            "evidence_file": f"evidence/{pid}.json",
            "replay_cmd_template": f"./bin/vcheck {pid} --replay {{path}}",
            "engine": c["engine"],
            "technique": c["technique"],
            "level_claimed": {"category": c["cat"], "text": c["text"], "design_ref": c["ref"] + "; as built: DESIGN.md 9.2-9.3"},
            "level_note": c["note"],
        })
    engines = []
    for name, (path, kind) in ENGINES.items():
        serves = sorted(p for p, c in CHECKS.items() if c["engine"] == name or name in c.get("also", ()))
        if serves:
            engines.append({"name": name, "path": path, "serves_properties": serves, "kind_free_text": kind})
    m = {
        "version": 1,
        "setup_cmd": "./bin/ensure_env",
        "hooks": {
            "guard": "FUNC_ADL_XAOD_VERIF",
            "enable": "no source hooks are needed: checks import /repo's working tree through the overlay venv's .pth, read the rendered package from disk, and substitute python_on_whales by a stub on sys.path",
            "baseline_off_cmd": "cd /repo && /venv/bin/python -m pytest -ra -q -p no:cacheprovider --timeout=900 --continue-on-collection-errors",
            "source_commits": [],
            "add_only": True,
        },
        "engines": engines,
        "checks": checks,
        "notes": "All checks: exit 0 held / 1 VIOLATION / 3 harness error (encoder cross-validation failed; nothing claimed). Known findings: known_findings.jsonl. Seeded changes: seeded/.",
        "not_applicable": [{"property_id": p, "reason": r} for p, r in sorted(PENDING.items()) if p not in CHECKS],
    }
    (ROOT / "MANIFEST.json").write_text(json.dumps(m, indent=1) + "\n")


if __name__ == "__main__":
    main()
