#!/bin/bash
# runs every quick check sequentially; prints one summary line each
cd "$(dirname "$0")/.."
for c in C01 C02 C03 C04 C05 C06 C07 C08 C09 C10 C11 C12 C13 C14 C15 C16 C17 C18; do
  s=$(date +%s); out=$(./bin/vcheck $c --tier ${1:-quick} 2>&1); rc=$?; e=$(date +%s)
  echo "$c rc=$rc $((e-s))s $(echo "$out" | grep '^\[C' | cut -c1-150) $(echo "$out" | grep -c '^VIOLATION') viol $(echo "$out" | grep -c '^KNOWN-FINDING') kf"
done
