#!/bin/bash
# usage: tools/run_some.sh <tier> C01 C02 ...   (one summary line per check, like run_all.sh)
cd "$(dirname "$0")/.."
tier=$1; shift
for c in "$@"; do
  s=$(date +%s); out=$(./bin/vcheck $c --tier $tier 2>&1); rc=$?; e=$(date +%s)
  echo "$c rc=$rc $((e-s))s $(echo "$out" | grep '^\[C' | cut -c1-150) $(echo "$out" | grep -c '^VIOLATION') viol $(echo "$out" | grep -c '^KNOWN-FINDING') kf"
  [ $rc -ne 0 ] && echo "$out" | grep '^#' | head -5 | cut -c1-400
done
