#!/bin/bash
# usage: tools/seed_confirm.sh <dir with patch.diff + demo_<P>.py> <P>
# Confirms a seeded change in a FRESH scratch worktree of /repo (no git stash: it is shared between worktrees).
S=$(cd "$1" && pwd); P=$2
W=/tmp/seedchk_$P_$$
git -C /repo worktree add -q $W HEAD || exit 2
cd $W
cp $S/demo_$P.py .
[ -d $S/python_on_whales ] && cp -r $S/python_on_whales .
echo "== demo without change"; /venv/bin/python demo_$P.py > /tmp/demo_without_$P.log 2>&1; echo "exit=$?"
git apply $S/patch.diff || { echo "PATCH DOES NOT APPLY"; cd /; git -C /repo worktree remove --force $W; exit 2; }
echo "== tests with change"; /venv/bin/python -m pytest -q -p no:cacheprovider 2>&1 | tail -1
echo "== demo with change"; /venv/bin/python demo_$P.py > /tmp/demo_with_$P.log 2>&1; echo "exit=$?"
git diff --stat -- func_adl_xAOD | tail -1
cd /; git -C /repo worktree remove --force $W
