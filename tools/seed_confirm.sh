#!/bin/bash
# usage: tools/seed_confirm.sh <worktree dir> <prop>   -- confirms a sub-agent's seeded change in its own worktree
W=$1; P=$2
cd $W || exit 2
echo "== tests with change"; /venv/bin/python -m pytest -q -p no:cacheprovider 2>&1 | tail -1
echo "== demo with change"; /venv/bin/python demo_$P.py > /tmp/demo_with.log 2>&1; echo "exit=$?"
git stash -q
echo "== demo without change"; /venv/bin/python demo_$P.py > /tmp/demo_without.log 2>&1; echo "exit=$?"
git stash pop -q
git diff --stat -- func_adl_xAOD | tail -2
