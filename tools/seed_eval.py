#!/usr/bin/env python3
"""Apply each seeded change to /repo, run the given checks, undo; record which checks raise an alarm.
usage: tools/seed_eval.py <seed dir name> [check ids...]   (seed dir under /verif/seeded)"""
import json
import subprocess
import sys
from pathlib import Path

ROOT = Path(__file__).resolve().parents[1]


def sh(cmd, **kw):
    return subprocess.run(cmd, shell=True, capture_output=True, text=True, **kw)


def main():
    name = sys.argv[1]
    checks = sys.argv[2:] or ["C01", "C02", "C03", "C04", "C05", "C12", "C13"]
    tier = "quick"
    d = ROOT / "seeded" / name
    assert sh("git -C /repo status --short").stdout.strip() == "", "repo not clean"
    r = sh(f"git -C /repo apply {d / 'patch.diff'}")
    if r.returncode != 0:
        print("patch does not apply:", r.stderr)
        sys.exit(2)
    res = {}
    try:
        for c in checks:
            rr = sh(f"cd {ROOT} && ./bin/vcheck {c} --tier {tier}")
            nviol = rr.stdout.count("VIOLATION property=")
            first = next((ln for ln in rr.stdout.splitlines() if ln.startswith("# ")), "")
            res[c] = {"exit": rr.returncode, "violations": nviol, "first": first[:300]}
            print(c, rr.returncode, nviol, first[:200])
    finally:
        sh("git -C /repo checkout -- .")
    meta_p = d / "meta.json"
    meta = json.loads(meta_p.read_text()) if meta_p.exists() else {}
    meta.setdefault("check_results", {}).update(res)
    meta["detected_by"] = sorted(c for c, v in meta["check_results"].items() if v["exit"] == 1)
    meta_p.write_text(json.dumps(meta, indent=1) + "\n")
    # evidence files were rewritten by the mutated runs: restore the committed ones
    sh(f"cd {ROOT} && git checkout -- evidence")


if __name__ == "__main__":
    main()
