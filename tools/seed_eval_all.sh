#!/bin/bash
cd /verif
for d in seeded/*-[abcde]; do
  n=$(basename $d); p=${n%%-*}; grep -q "\"retired\"" $d/meta.json && continue
  python3 tools/seed_eval.py $n $p 2>&1 | grep -v WARNING | sed "s/^/$n /"
  git -C /repo status --short | grep -q . && { echo "REPO DIRTY after $n"; git -C /repo checkout -- .; }
done
