#!/usr/bin/env python3
"""First-pass, parallel evaluation of seeded changes: each seed gets its own scratch worktree of /repo with the change
applied, and the quick checks run against that worktree (VERIF_REPO), with evidence and replays redirected to scratch.
/repo itself is not touched, so many seeds can be evaluated at once.  The result is recorded in the seed's meta.json
under "worktree_results"; the authoritative record ("check_results", by tools/seed_eval.py: apply to /repo itself,
run, undo) is produced separately.
usage: tools/seed_eval_wt.py [-j N] seed[:C01,C02...] ..."""
import json
import os
import shutil
import subprocess
import sys
from concurrent.futures import ThreadPoolExecutor
from pathlib import Path

ROOT = Path(__file__).resolve().parents[1]


def sh(cmd, **kw):
    return subprocess.run(cmd, shell=True, capture_output=True, text=True, **kw)


def one(spec):
    name, _, cs = spec.partition(":")
    d = ROOT / "seeded" / name
    prop = name.split("-")[0]
    checks = cs.split(",") if cs else [prop]
    W = Path(f"/tmp/evalwt/{name}")
    sh(f"git -C /repo worktree remove --force {W}")
    r = sh(f"mkdir -p /tmp/evalwt && git -C /repo worktree add -q --detach {W} HEAD && git -C {W} apply {d / 'patch.diff'}")
    if r.returncode != 0:
        return name, {"error": r.stderr[:300]}
    res = {}
    try:
        for c in checks:
            env = dict(os.environ, VERIF_REPO=str(W), VERIF_EVIDENCE_DIR=f"/tmp/evalwt/{name}.ev", VERIF_REPLAYS=f"/tmp/evalwt/{name}.rp",
                       VERIF_SCRATCH=f"/tmp/evalwt/{name}.tmp")
            os.makedirs(env["VERIF_SCRATCH"], exist_ok=True)
            rr = sh(f"cd {ROOT} && ./bin/vcheck {c} --tier quick --jobs {JOBS}", env=env)
            (Path("/tmp/evalwt") / f"{name}.{c}.log").write_text(rr.stdout + "\n--stderr--\n" + rr.stderr)
            first = next((ln for ln in rr.stdout.splitlines() if ln.startswith("# ")), "")
            under = ""
            try:
                under = json.load(open(f"/tmp/evalwt/{name}.ev/{c}.json"))["coverage"].get("code_under_check", "")
            except Exception:  # noqa: BLE001
                pass
            res[c] = {"exit": rr.returncode, "violations": rr.stdout.count("VIOLATION property="), "first": first[:300], "code_under_check": under}
    finally:
        sh(f"git -C /repo worktree remove --force {W}")
        for suf in (".ev", ".rp", ".tmp"):
            shutil.rmtree(f"/tmp/evalwt/{name}{suf}", ignore_errors=True)
    mp = d / "meta.json"
    meta = json.loads(mp.read_text()) if mp.exists() else {}
    meta.setdefault("worktree_results", {}).update(res)
    mp.write_text(json.dumps(meta, indent=1) + "\n")
    return name, res


if __name__ == "__main__":
    args = sys.argv[1:]
    par = 4
    if args and args[0] == "-j":
        par = int(args[1]); args = args[2:]
    JOBS = max(2, 16 // par)
    with ThreadPoolExecutor(par) as ex:
        for name, res in ex.map(one, args):
            print(name, json.dumps({k: (v["exit"], v["violations"], v.get("code_under_check", "")[-30:], v["first"][:140]) if isinstance(v, dict) else v for k, v in res.items()}))
