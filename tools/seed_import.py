#!/usr/bin/env python3
"""Import round-2 seeded changes produced by a sub-agent in /tmp/seed2/<P>/.scratch into /verif/seeded/<P>-{b,c}
and confirm each in a FRESH scratch worktree of /repo: demo exits 0 without the change, the 316 tests pass with it,
the demo exits 1 with it.   usage: tools/seed_import.py <P> [letters] [source root]"""
import json
import os
import shutil
import subprocess
import sys
from pathlib import Path

ROOT = Path(__file__).resolve().parents[1]


def sh(cmd, cwd=None):
    return subprocess.run(cmd, shell=True, capture_output=True, text=True, cwd=cwd)


def main():
    P = sys.argv[1]
    letters = sys.argv[2] if len(sys.argv) > 2 else "bc"
    root = sys.argv[3] if len(sys.argv) > 3 else "/tmp/seed2"
    src = Path(f"{root}/{P}/.scratch")
    for x in letters:
        patch = src / f"patch_{x}.diff"
        if not patch.exists():
            print(P, x, "no patch")
            continue
        d = ROOT / "seeded" / f"{P}-{x}"
        d.mkdir(parents=True, exist_ok=True)
        shutil.copy(patch, d / "patch.diff")
        shutil.copy(src / f"demo_{x}.py", d / f"demo_{P}.py")
        if (src / f"notes_{x}.md").exists():
            shutil.copy(src / f"notes_{x}.md", d / "NOTES.md")
        for extra in src.iterdir():   # helper dirs a demo may need (stub tools etc.)
            if extra.is_dir() and extra.name not in ("__pycache__",):
                shutil.copytree(extra, d / extra.name, dirs_exist_ok=True)
        W = Path(f"/tmp/seedchk_{P}_{x}_{os.getpid()}")
        r = sh(f"git -C /repo worktree add -q --detach {W} HEAD")
        if r.returncode != 0:
            print("worktree failed", r.stderr)
            continue
        res = {}
        try:
            (W / ".scratch").mkdir(exist_ok=True)
            shutil.copy(d / f"demo_{P}.py", W / f"demo_{P}.py")
            for extra in d.iterdir():
                if extra.is_dir():
                    shutil.copytree(extra, W / ".scratch" / extra.name, dirs_exist_ok=True)
                    shutil.copytree(extra, W / extra.name, dirs_exist_ok=True)
            r0 = sh(f"/venv/bin/python demo_{P}.py", cwd=W)
            res["demo_without"] = r0.returncode
            ra = sh(f"git apply {d / 'patch.diff'}", cwd=W)
            if ra.returncode != 0:
                res["apply"] = ra.stderr[:200]
            else:
                rt = sh("/venv/bin/python -m pytest -q -p no:cacheprovider tests 2>&1 | tail -1", cwd=W)
                res["tests"] = rt.stdout.strip()
                r1 = sh(f"/venv/bin/python demo_{P}.py", cwd=W)
                res["demo_with"] = r1.returncode
                res["demo_output"] = (r1.stdout + r1.stderr)[-600:]
                res["files"] = sh("git diff --stat -- func_adl_xAOD | tail -1", cwd=W).stdout.strip()
        finally:
            sh(f"git -C /repo worktree remove --force {W}")
        ok = res.get("demo_without") == 0 and res.get("demo_with") == 1 and "316 passed" in res.get("tests", "")
        meta_p = d / "meta.json"
        meta = json.loads(meta_p.read_text()) if meta_p.exists() else {}
        meta.update({"property": P, "origin": f"independent sub-agent ({root.rsplit('/', 1)[-1]}) given only the property text and its own worktree",
                     "confirmed": ok, "confirmation": res,
                     "how_run": "tools/seed_eval.py <seed> <checks>: git -C /repo apply patch.diff; ./bin/vcheck <id> --tier quick; git -C /repo checkout -- ."})
        meta_p.write_text(json.dumps(meta, indent=1) + "\n")
        print(P, x, "CONFIRMED" if ok else "NOT CONFIRMED", {k: v for k, v in res.items() if k != "demo_output"})


if __name__ == "__main__":
    main()
