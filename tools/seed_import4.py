#!/usr/bin/env python3
"""Import round-4 seeded changes produced by a sub-agent in <root>/<P>/.scratch (patch_x.diff, demo_x.py, notes_x.md + helper
files / directories) into /verif/seeded/<P>-<x> and confirm each in a FRESH scratch worktree of /repo: the demo (run from the
worktree root as `.scratch/demo_<P>.py`, the way the agent ran it) exits 0 without the change, the 316 tests pass with it, the
demo exits 1 with it.      usage: tools/seed_import4.py <P> [letters=fg] [root=/tmp/seed4]"""
import json
import os
import shutil
import subprocess
import sys
from pathlib import Path

ROOT = Path(__file__).resolve().parents[1]
SKIP = ("patch_", "notes_", "__pycache__")


def sh(cmd, cwd=None, timeout=1200):
    return subprocess.run(cmd, shell=True, capture_output=True, text=True, cwd=cwd, timeout=timeout)


def confirm(d: Path, P: str):
    """-> result dict; d = seeded/<P>-<x>"""
    W = Path(f"/tmp/seedchk_{d.name}_{os.getpid()}")
    r = sh(f"git -C /repo worktree add -q --detach {W} HEAD")
    if r.returncode != 0:
        return {"error": "worktree failed: " + r.stderr[:200]}
    res = {}
    try:
        S = W / ".scratch"
        S.mkdir(exist_ok=True)
        for extra in d.iterdir():
            if extra.name in ("patch.diff", "meta.json", "NOTES.md"):
                continue
            if extra.is_dir():
                shutil.copytree(extra, S / extra.name, dirs_exist_ok=True)
            else:
                shutil.copy(extra, S / extra.name)
        demo = f".scratch/demo_{P}.py"
        r0 = sh(f"/venv/bin/python {demo}", cwd=W)
        res["demo_without"] = r0.returncode
        if r0.returncode != 0:
            res["demo_without_output"] = (r0.stdout + r0.stderr)[-600:]
        ra = sh(f"git apply {d / 'patch.diff'}", cwd=W)
        if ra.returncode != 0:
            res["apply"] = ra.stderr[:200]
        else:
            rt = sh("/venv/bin/python -m pytest -q -p no:cacheprovider tests 2>&1 | tail -1", cwd=W)
            res["tests"] = rt.stdout.strip()
            r1 = sh(f"/venv/bin/python {demo}", cwd=W)
            res["demo_with"] = r1.returncode
            res["demo_output"] = (r1.stdout + r1.stderr)[-600:]
            res["files"] = sh("git diff --stat -- func_adl_xAOD | tail -1", cwd=W).stdout.strip()
    finally:
        sh(f"git -C /repo worktree remove --force {W}")
        shutil.rmtree(W, ignore_errors=True)
    return res


def main():
    P = sys.argv[1]
    letters = sys.argv[2] if len(sys.argv) > 2 else "fg"
    root = sys.argv[3] if len(sys.argv) > 3 else "/tmp/seed4"
    src = Path(f"{root}/{P}/.scratch")
    for x in letters:
        patch = src / f"patch_{x}.diff"
        if not patch.exists():
            print(P, x, "no patch")
            continue
        d = ROOT / "seeded" / f"{P}-{x}"
        d.mkdir(parents=True, exist_ok=True)
        shutil.copy(patch, d / "patch.diff")
        shutil.copy(src / f"demo_{x}.py", d / f"demo_{P}.py")
        if (src / f"notes_{x}.md").exists():
            shutil.copy(src / f"notes_{x}.md", d / "NOTES.md")
        for extra in src.iterdir():          # helpers a demo may need (shared modules, stub tools, mock headers)
            if extra.name.startswith(SKIP) or __import__("re").fullmatch(r"demo_[a-z]\.py", extra.name) or extra.name in ("observed_defects.md",) or extra.suffix in (".diff",):
                continue
            if extra.is_dir():
                if extra.name.startswith(("out", "tmp", "build", "scratch", "work")):
                    continue
                shutil.copytree(extra, d / extra.name, dirs_exist_ok=True, ignore=shutil.ignore_patterns("__pycache__", "*.pyc", "*.o", "*.root"))
            elif extra.suffix in (".py", ".h", ".hpp", ".cxx", ".cc", ".sh", ".txt", ".json") and extra.stat().st_size < 400_000:
                shutil.copy(extra, d / extra.name)
        res = confirm(d, P)
        ok = res.get("demo_without") == 0 and res.get("demo_with") == 1 and "316 passed" in res.get("tests", "")
        head = sh("git -C /repo rev-parse --short HEAD").stdout.strip()
        meta_p = d / "meta.json"
        meta = json.loads(meta_p.read_text()) if meta_p.exists() else {}
        meta.update({"property": P, "origin": "independent sub-agent (round 4) given only the property text and its own worktree",
                     "confirmed": ok, "confirmed_at_head": head, "confirmation": res,
                     "how_confirmed": "fresh worktree of /repo HEAD: `/venv/bin/python .scratch/demo_<P>.py` -> 0; git apply patch.diff; pytest tests -> 316 passed; demo -> 1",
                     "how_run": "tools/seed_eval.py <seed> <checks>: git -C /repo apply patch.diff; ./bin/vcheck <id> --tier quick; git -C /repo checkout -- ."})
        meta_p.write_text(json.dumps(meta, indent=1) + "\n")
        print(P, x, "CONFIRMED" if ok else "NOT CONFIRMED", {k: v for k, v in res.items() if k not in ("demo_output",)})


if __name__ == "__main__":
    main()
