#!/usr/bin/env python3
"""Re-confirm seeded changes against /repo's current HEAD in a fresh scratch worktree: demo exits 0 without the change,
the test suite passes with it, the demo exits 1 with it.  usage: tools/seed_reconfirm.py <seed dir name> ..."""
import json
import os
import shutil
import subprocess
import sys
from pathlib import Path

ROOT = Path(__file__).resolve().parents[1]


def sh(cmd, cwd=None):
    return subprocess.run(cmd, shell=True, capture_output=True, text=True, cwd=cwd)


def main():
    head = sh("git -C /repo rev-parse --short HEAD").stdout.strip()
    for name in sys.argv[1:]:
        d = ROOT / "seeded" / name
        P = name.split("-")[0]
        demo = next(iter(sorted(d.glob("demo_*.py"))), None)
        W = Path(f"/tmp/seedchk_{name}_{os.getpid()}")
        if sh(f"git -C /repo worktree add -q --detach {W} HEAD").returncode != 0:
            print(name, "worktree failed")
            continue
        res = {"head": head}
        try:
            (W / ".scratch").mkdir(exist_ok=True)
            shutil.copy(demo, W / demo.name)
            for extra in d.iterdir():
                if extra.is_dir():
                    shutil.copytree(extra, W / ".scratch" / extra.name, dirs_exist_ok=True)
                    shutil.copytree(extra, W / extra.name, dirs_exist_ok=True)
            res["demo_without"] = sh(f"/venv/bin/python {demo.name}", cwd=W).returncode
            ra = sh(f"git apply {d / 'patch.diff'}", cwd=W)
            if ra.returncode != 0:
                res["apply"] = ra.stderr[:200]
            else:
                res["tests"] = sh("/venv/bin/python -m pytest -q -p no:cacheprovider tests 2>&1 | tail -1", cwd=W).stdout.strip()
                r1 = sh(f"/venv/bin/python {demo.name}", cwd=W)
                res["demo_with"] = r1.returncode
        finally:
            sh(f"git -C /repo worktree remove --force {W}")
        ok = res.get("demo_without") == 0 and res.get("demo_with") == 1 and "316 passed" in res.get("tests", "")
        mp = d / "meta.json"
        meta = json.loads(mp.read_text()) if mp.exists() else {}
        meta["reconfirmed"] = dict(res, ok=ok)
        mp.write_text(json.dumps(meta, indent=1) + "\n")
        print(name, "CONFIRMED" if ok else "NOT CONFIRMED", res)


if __name__ == "__main__":
    main()
