#!/usr/bin/env python3
"""Re-confirm every seeded change against /repo's current HEAD, each in its own fresh scratch worktree, in parallel:
demo exits 0 without the change, the unedited test-suite passes with it, the demo exits 1 with it.  Seeds of rounds 1-3 keep
their demo at the worktree root, round-4 seeds under .scratch/ (the way the agents ran them).  Records meta.json["reconfirmed"].
usage: tools/seed_reconfirm_all.py [-j N] [seed ...]"""
import json
import os
import shutil
import subprocess
import sys
from concurrent.futures import ThreadPoolExecutor
from pathlib import Path

ROOT = Path(__file__).resolve().parents[1]


def sh(cmd, cwd=None):
    return subprocess.run(cmd, shell=True, capture_output=True, text=True, cwd=cwd, timeout=1800)


def one(name):
    d = ROOT / "seeded" / name
    P = name.split("-")[0]
    meta = json.loads((d / "meta.json").read_text()) if (d / "meta.json").exists() else {}
    if meta.get("retired"):
        return name, {"retired": True}
    new_layout = "how_confirmed" in meta
    W = Path(f"/tmp/seedchk_{name}_{os.getpid()}")
    sh(f"git -C /repo worktree remove --force {W}")
    if sh(f"git -C /repo worktree add -q --detach {W} HEAD").returncode != 0:
        return name, {"error": "worktree failed"}
    res = {"head": sh("git -C /repo rev-parse --short HEAD").stdout.strip()}
    try:
        S = W / ".scratch"
        S.mkdir(exist_ok=True)
        demo_file = next(iter(sorted(d.glob("demo_*.py"))), None)
        for extra in d.iterdir():
            if extra.name in ("patch.diff", "meta.json", "NOTES.md") or extra.name.endswith(".orig"):
                continue
            if extra.is_dir():
                shutil.copytree(extra, S / extra.name, dirs_exist_ok=True)
                if not new_layout:
                    shutil.copytree(extra, W / extra.name, dirs_exist_ok=True)
            else:
                shutil.copy(extra, S / extra.name)
                if not new_layout:
                    shutil.copy(extra, W / extra.name)
        demo = f".scratch/{demo_file.name}" if new_layout else demo_file.name
        r0 = sh(f"/venv/bin/python {demo}", cwd=W)
        res["demo_without"] = r0.returncode
        ra = sh(f"git apply {d / 'patch.diff'}", cwd=W)
        if ra.returncode != 0:
            res["apply"] = ra.stderr[:300]
        else:
            res["tests"] = sh("/venv/bin/python -m pytest -q -p no:cacheprovider tests 2>&1 | tail -1", cwd=W).stdout.strip()
            res["demo_with"] = sh(f"/venv/bin/python {demo}", cwd=W).returncode
    finally:
        sh(f"git -C /repo worktree remove --force {W}")
        shutil.rmtree(W, ignore_errors=True)
    res["ok"] = res.get("demo_without") == 0 and res.get("demo_with") == 1 and "316 passed" in res.get("tests", "")
    meta["reconfirmed"] = res
    (d / "meta.json").write_text(json.dumps(meta, indent=1) + "\n")
    return name, res


if __name__ == "__main__":
    args = sys.argv[1:]
    par = 6
    if args and args[0] == "-j":
        par = int(args[1])
        args = args[2:]
    names = args or sorted(p.name for p in (ROOT / "seeded").iterdir() if p.is_dir())
    with ThreadPoolExecutor(par) as ex:
        for name, res in ex.map(one, names):
            print(name, "OK" if res.get("ok") else ("retired" if res.get("retired") else "NOT-OK"), {k: v for k, v in res.items() if k not in ("ok",)})
