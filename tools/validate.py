#!/usr/bin/env python3
"""Validates MANIFEST.json and every evidence file against the schemas, and that each evidence level equals
the level claimed in the manifest (run with python3-vt: needs jsonschema)."""
import json
import sys
from pathlib import Path

import jsonschema

R = Path(__file__).resolve().parents[1]
m = json.load(open(R / "MANIFEST.json"))
jsonschema.validate(m, json.load(open("/root/.vp/MANIFEST.schema.json")))
es = json.load(open("/root/.vp/EVIDENCE.schema.json"))
bad = 0
props = [json.loads(l)["id"] for l in open(R / "properties.jsonl")]
claimed = {c["property_id"] for c in m["checks"]}
na = {n["property_id"] for n in m.get("not_applicable", [])}
for p in props:
    if p not in claimed and p not in na:
        print("property neither claimed nor not_applicable:", p)
        bad += 1
for c in m["checks"]:
    f = R / c["evidence_file"]
    if not f.exists():
        print("missing evidence", f)
        bad += 1
        continue
    e = json.load(open(f))
    try:
        jsonschema.validate(e, es)
    except jsonschema.ValidationError as x:
        print("invalid evidence", f, x.message[:200])
        bad += 1
    if e["level"] != c["level_claimed"]["category"]:
        print("level mismatch", c["property_id"], e["level"], c["level_claimed"]["category"])
        bad += 1
print("ok" if not bad else f"{bad} problems")
sys.exit(1 if bad else 0)
