"""Engine B: CrossHair conditions over the repository's own functions.

Each harness function returns True iff the property holds for its (symbolic) arguments and
carries PEP316 `pre:` lines plus `post: _`.  One crosshair process per condition; verdicts:
  Confirmed over all paths -> holds          counterexample -> replayed in a plain interpreter
  Not confirmed / Unable to meet precondition / timeout -> inconclusive
A reachability twin (same preconditions, `post: False`) must come back violated, otherwise the
condition is vacuous and counted inconclusive."""
import ast
import os
import re
import subprocess
import sys
import tempfile
import time
from concurrent.futures import ThreadPoolExecutor
from pathlib import Path

ROOT = Path(__file__).resolve().parents[2]
HARNESS = ROOT / "harness" / "ch"
PY = str(ROOT / ".venv" / "bin" / "python")
CROSSHAIR = [PY, "-m", "crosshair"]


def conditions_in(path: Path):
    """[(function name, line of the def, docstring)] for functions whose docstring has a post: line."""
    tree = ast.parse(path.read_text())
    out = []
    for n in tree.body:
        if isinstance(n, ast.FunctionDef):
            ds = ast.get_docstring(n) or ""
            if re.search(r"^\s*post:", ds, re.M):
                out.append((n.name, n.lineno, ds))
    return out


def env():
    e = dict(os.environ)
    e["PYTHONPATH"] = f"{os.environ.get('VERIF_REPO', '/repo')}:{HARNESS}:{ROOT}:{ROOT / 'stubs' / 'py'}"
    e["PYTHONDONTWRITEBYTECODE"] = "1"
    e["PYTHONHASHSEED"] = "0"
    return e


UNBLOCK_MODULES = ("h_c17",)      # harnesses whose code under test does file I/O in scratch directories


def run_crosshair(file: Path, line: int, timeout_s: int, per_path: float = None, extra=()):
    cmd = CROSSHAIR + ["check", "--report_all", f"--per_condition_timeout={timeout_s}"]
    if per_path:
        cmd.append(f"--per_path_timeout={per_path}")
    cmd += list(extra)
    cmd.append(f"{file}:{line}")
    if any(file.name.startswith(m) for m in UNBLOCK_MODULES):
        cmd += ["--unblock", "EVERYTHING"]
    t0 = time.time()
    try:
        r = subprocess.run(cmd, capture_output=True, text=True, timeout=timeout_s * 2 + 90, env=env(), cwd=str(HARNESS))
        out = r.stdout + r.stderr
    except subprocess.TimeoutExpired as e:
        out = (e.stdout or "") + "\nTIMEOUT"
        if isinstance(out, bytes):
            out = out.decode("utf8", "replace")
    return out, time.time() - t0


def parse_verdict(out):
    """-> (verdict, detail) verdict in confirmed | cex | exception | not_confirmed | unmet_pre | unknown"""
    if "Confirmed over all paths" in out:
        return "confirmed", ""
    m = re.search(r"error: false when calling (.*?)(?: \(which returns (.*)\))?$", out, re.M)
    if m:
        return "cex", m.group(1)
    m = re.search(r"error: (\w+(?:Error|Exception)?):? ?(.*?) when calling (.*)$", out, re.M)
    if m:
        return "exception", m.group(3) + " raises " + m.group(1) + ": " + m.group(2)
    if "Unable to meet precondition" in out:
        return "unmet_pre", ""
    if "Not confirmed" in out:
        return "not_confirmed", ""
    return "unknown", out[-400:]


def call_of(detail):
    "the 'f(args)' text of a counterexample detail"
    return detail.split(" raises ")[0].strip()


def replay(module: str, call: str):
    """Re-run the harness function on the reported arguments in a plain interpreter.
    Returns (reproduced: bool|None, text)."""
    code = (f"import sys\nimport {module} as M\nfrom {module} import *\n"
            f"try:\n    r = M.{call}\n    print('RESULT', repr(r))\nexcept Exception as e:\n    print('RAISED', type(e).__name__, e)\n")
    try:
        r = subprocess.run([PY, "-c", code], capture_output=True, text=True, timeout=300, env=env(), cwd=str(HARNESS))
    except subprocess.TimeoutExpired:
        return None, "replay timed out"
    out = r.stdout.strip().splitlines()
    last = out[-1] if out else (r.stderr.strip().splitlines() or ["no output"])[-1]
    if last.startswith("RESULT"):
        val = last[7:].strip()
        return (val in ("False", "None", "0", "''", "[]")), last
    if last.startswith("RAISED"):
        return True, last
    return None, last[-300:]


class Cond:
    def __init__(self, module, fn, line, doc, file):
        self.module, self.fn, self.line, self.doc, self.file = module, fn, line, doc, file
        self.verdict = None
        self.detail = ""
        self.seconds = 0.0
        self.twin = None
        self.replayed = None
        self.replay_text = ""


def make_twin_file(src: Path) -> Path:
    txt = src.read_text()
    txt2 = re.sub(r"^(\s*)post:.*$", r"\1post: False", txt, flags=re.M)
    d = Path(tempfile.mkdtemp(prefix="chtwin", dir=os.environ.get("VERIF_SCRATCH", tempfile.gettempdir())))
    f = d / (src.stem + "_twin.py")
    f.write_text(txt2)
    return f


def blocked_copy(c):
    """Copy of the harness file in which condition c has one more precondition per blocked call
    (the exact argument tuples CrossHair reported but which do not reproduce)."""
    try:
        src = c.file.read_text()
        tree = ast.parse(src)
        fn = next(n for n in tree.body if isinstance(n, ast.FunctionDef) and n.name == c.fn)
        params = [a.arg for a in fn.args.args]
        extra = []
        for call in c.blocked:
            node = ast.parse(call, mode="eval").body
            vals = [ast.unparse(a) for a in node.args]
            kw = {k.arg: ast.unparse(k.value) for k in node.keywords}
            eqs = []
            for i, p_ in enumerate(params):
                v = vals[i] if i < len(vals) else kw.get(p_)
                if v is not None:
                    eqs.append(f"{p_} == {v}")
            extra.append("    pre: not (" + " and ".join(eqs) + ")")
        lines = src.split("\n")
        # insert after the line with the opening docstring quotes of this function
        i = fn.lineno
        while '"""' not in lines[i]:
            i += 1
        lines[i + 1:i + 1] = extra
        # keep line numbers of the def stable: extra lines go after the def line
        d = Path(tempfile.mkdtemp(prefix="chblk", dir=os.environ.get("VERIF_SCRATCH", tempfile.gettempdir())))
        f = d / c.file.name
        f.write_text("\n".join(lines))
        return f
    except Exception:  # noqa: BLE001
        return None


def collect(module: str, timeout_s: int, only=None):
    file = HARNESS / f"{module}.py"
    cs = [Cond(module, fn, ln, ds, file) for fn, ln, ds in conditions_in(file) if only is None or only(fn)]
    for c in cs:
        c.timeout = timeout_s
    return cs


def run_all(conds, jobs: int, per_path=None, twin_timeout=30):
    """Run all conditions (possibly of several modules) in one pool, longest budgets first."""
    twins = {}
    for c in conds:
        if c.module not in twins:
            twins[c.module] = make_twin_file(c.file)

    def work(c: Cond):
        out, dt = run_crosshair(c.file, c.line, c.timeout, per_path)
        c.seconds = dt
        c.verdict, c.detail = parse_verdict(out)
        c.blocked = []
        tries = 0
        while c.verdict in ("cex", "exception"):
            c.replayed, c.replay_text = replay(c.module, call_of(c.detail))
            if c.replayed is not False or tries >= 3:
                break
            # spurious model: block exactly these arguments and search again (DESIGN 1.1)
            tries += 1
            c.blocked.append(call_of(c.detail))
            bf = blocked_copy(c)
            if bf is None:
                break
            out, dt = run_crosshair(bf, c.line, c.timeout, per_path)
            c.seconds += dt
            c.verdict, c.detail = parse_verdict(out)
            try:
                bf.unlink()
                bf.parent.rmdir()
            except OSError:
                pass
        if c.verdict == "confirmed":
            tout, tdt = run_crosshair(twins[c.module], c.line, twin_timeout, per_path)
            tv, _ = parse_verdict(tout)
            c.twin = tv in ("cex", "exception")
            c.seconds += tdt
        return c
    order = sorted(conds, key=lambda c: -c.timeout)
    with ThreadPoolExecutor(max_workers=max(1, jobs)) as ex:
        list(ex.map(work, order))
    for f in twins.values():
        try:
            f.unlink()
            f.parent.rmdir()
        except OSError:
            pass
    return conds


def run_module(module: str, timeout_s: int, jobs: int, only=None, per_path=None, twin_timeout=30):
    return run_all(collect(module, timeout_s, only), jobs, per_path, twin_timeout)
