"""C01 - generated job computes exactly the rows and values the query denotes."""
import sys

from ..common import parse_args
from ..tv import gen
from ..tv.translate import BACKENDS
from .tvcheck import ENGINE_A_ASSUMPTIONS, TVCheck, cleanup_scratch


def main():
    a = parse_args("C01")
    N = 3 if a.tier == "quick" else 4
    chk = TVCheck("C01", a.tier, a.seed, N=N, timeout_ms=10000 if a.tier == "quick" else 60000,
                  want=("rows", "nofault", "loud", "twin"), bad_statuses=(), raised_is_violation=True)
    programs, meta = [], {"families": {}}
    for b in BACKENDS:
        ps, m = gen.c01_programs(b, a.tier, a.seed)
        ps += gen.c04_programs(b, a.tier)      # partial operations in every lazy position (shared with C04)
        # math functions (shared with C12): alone, inside arithmetic, on literal arguments
        ps += [p for p in gen.c12_programs(b) if p.tags[-1] in ("standalone", "arith", "literal-args0", "literal-args2", "operator")]
        if a.tier == "quick" and b != "atlas":
            ps = ps[::3]          # CMS backends share common/: a representative third in quick
        meta["families"][b] = dict(m, programs=len(ps))
        programs += ps
    if a.limit:
        programs = programs[: a.limit]
    rep, cov, _ = chk.run(programs, a.jobs, meta)
    cleanup_scratch()
    sys.exit(rep.finish(cov, ENGINE_A_ASSUMPTIONS))


if __name__ == "__main__":
    main()
