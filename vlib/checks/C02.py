"""C02 - every accepted query yields a complete, self-consistent, compilable package."""
import sys

from ..common import parse_args
from ..tv import gen
from ..tv.translate import BACKENDS
from .tvcheck import ENGINE_A_ASSUMPTIONS, TVCheck, cleanup_scratch


def main():
    a = parse_args("C02")
    N = 3 if a.tier == "quick" else 4
    chk = TVCheck("C02", a.tier, a.seed, N=N, timeout_ms=10000 if a.tier == "quick" else 60000,
                  want=("init", "complete", "twin"), bad_statuses=("illformed", "illtyped", "frontend"),
                  raised_is_violation=False)
    programs, meta = [], {"families": {}}
    for b in BACKENDS:
        ps, m = gen.c01_programs(b, a.tier, a.seed)
        ps += gen.c04_programs(b, a.tier) + [p for p in gen.c03_programs(b, a.tier) if "must_raise" not in p.tags]
        if b == "atlas" or a.tier == "thorough":
            ps += gen.c13_programs(b, a.tier)
        ps += [gen.make_program(q, b) for q in gen.c02_extra(b)]
        ps += gen.c10_programs(b) + gen.c11_programs(b)          # declared types (incl. tree types, enums) and injected functions
        ps = [p for p in ps if "must_raise" not in p.tags]
        meta["families"][b] = dict(m, programs=len(ps))
        programs += ps
    if a.limit:
        programs = programs[: a.limit]
    rep, cov, _ = chk.run(programs, a.jobs, meta)
    cov["explanation"] = ("solver-decided: definite assignment (no read of an unassigned variable on any feasible path, all events within the bound); "
                          "front-end facts (not solver): file set, executable bit, rendered text = template static text + slots for every file, "
                          "single declaration per scope and no shadowing of generated names, member access / assignment kinds consistent with the declared "
                          "data model, headers of used containers included; ill-formedness is confirmed with clang -fsyntax-only on the real files")
    cleanup_scratch()
    sys.exit(rep.finish(cov, ENGINE_A_ASSUMPTIONS + [
        "full C++ well-formedness beyond the emitted subset (templates in user code, overload resolution, real experiment headers) is NOT claimed"]))


if __name__ == "__main__":
    main()
