"""C02 - every accepted query yields a complete, self-consistent, compilable package."""
import sys

from ..common import parse_args
from ..tv import gen
from ..tv.translate import BACKENDS
from .tvcheck import ENGINE_A_ASSUMPTIONS, TVCheck, cleanup_scratch


def main():
    a = parse_args("C02")
    N = 3 if a.tier == "quick" else 4
    chk = TVCheck("C02", a.tier, a.seed, N=N, timeout_ms=10000 if a.tier == "quick" else 60000,
                  want=("init", "complete", "twin"), bad_statuses=("illformed", "illtyped", "frontend"),
                  raised_is_violation=False)
    programs, meta = [], {"families": {}}
    for b in BACKENDS:
        ps, m = gen.c01_programs(b, a.tier, a.seed)
        ps += gen.c04_programs(b, a.tier) + [p for p in gen.c03_programs(b, a.tier) if "must_raise" not in p.tags]
        if b == "atlas" or a.tier == "thorough":
            ps += gen.c13_programs(b, a.tier)
        ps += [gen.make_program(q, b) for q in gen.c02_extra(b)]
        ps += gen.c10_programs(b) + gen.c11_programs(b)          # declared types (incl. tree types, enums) and injected functions
        ps = [p for p in ps if "must_raise" not in p.tags]
        # the second query of one executor object (same text): collections, tokens, injected functions, declared types
        import dataclasses
        again = [p for p in gen.c06_programs(b) if "must_raise" not in p.tags] + ps[:25] + gen.c11_programs(b)[:6] + gen.c10_programs(b)[:6]
        ps += [dataclasses.replace(p, tags=tuple(p.tags) + ("twice",), label=(p.label or "") + " [second query of the executor]") for p in again if "must_raise" not in p.tags]
        meta["families"][b] = dict(m, programs=len(ps))
        programs += ps
    if a.limit:
        programs = programs[: a.limit]
    rep, cov, _ = chk.run(programs, a.jobs, meta)
    # name generator kernel (engine C): generated identifiers are distinct for all base names and counter values
    import json
    from ..common import REPLAYS
    from ..strk import names
    for ob in names.obligations():
        rep.obligations += 1
        rep.solver_seconds += ob["seconds"]
        if ob["status"] == "holds":
            rep.discharged += 1
        elif ob["status"] == "cex":
            a_, b_ = names.replay(ob["witness"])
            if a_ == b_:
                d = REPLAYS / "C02" / "name_generator"
                d.mkdir(parents=True, exist_ok=True)
                (d / "finding.json").write_text(json.dumps({"witness": ob["witness"], "names": [a_, b_]}, indent=1))
                w = ob["witness"]
                rep.violation(f"name generator: base name {w['b1']!r} at counter {w['d1']} and base name {w['b2']!r} at counter {w['d2']} both become the identifier {a_!r} "
                              f"(two variables / members of one package can share a name)", d)
            else:
                rep.inconc(ob["name"], f"solver witness {ob['witness']} does not reproduce on the real function ({a_}, {b_})")
        else:
            rep.inconc(ob["name"], ob["detail"])
    cov["name_generator_kernel"] = "cpp_vars.unique_name translated from its AST to z3 strings: injective over base names (<=6 identifier characters) x pairs of different counter values (<=4 digits)"
    cov["explanation"] = ("solver-decided: definite assignment (no read of an unassigned variable on any feasible path, all events within the bound); "
                          "front-end facts (not solver): file set, executable bit, rendered text = template static text + slots for every file, "
                          "single declaration per scope and no shadowing of generated names, member access / assignment kinds consistent with the declared "
                          "data model, headers of used containers included; ill-formedness is confirmed with clang -fsyntax-only on the real files")
    cleanup_scratch()
    sys.exit(rep.finish(cov, ENGINE_A_ASSUMPTIONS + [
        "full C++ well-formedness beyond the emitted subset (templates in user code, overload resolution, real experiment headers) is NOT claimed"]))


if __name__ == "__main__":
    main()
