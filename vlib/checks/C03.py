"""C03 - output tree schema and returned descriptor match the query's final shape."""
import sys

from ..common import parse_args
from ..tv import gen
from ..tv.translate import BACKENDS
from .tvcheck import ENGINE_A_ASSUMPTIONS, TVCheck, cleanup_scratch


def main():
    a = parse_args("C03")
    N = 2 if a.tier == "quick" else 3
    chk = TVCheck("C03", a.tier, a.seed, N=N, timeout_ms=10000 if a.tier == "quick" else 60000,
                  want=("schema", "rows", "descriptor", "twin"), bad_statuses=("illformed", "illtyped", "frontend"),
                  raised_is_violation=True)
    programs, meta = [], {"families": {}}
    for b in BACKENDS:
        ps = gen.c03_programs(b, a.tier)
        meta["families"][b] = dict(programs=len(ps), must_raise=sum(1 for p in ps if "must_raise" in p.tags))
        programs += ps
    if a.limit:
        programs = programs[: a.limit]
    rep, cov, _ = chk.run(programs, a.jobs, meta)
    cov["explanation"] = ("solver-decided: every column of every filled row equals the value of the query's column expression for all events "
                          "(binding of branch name -> member -> filled value; a narrower member type changes some value); "
                          "front-end facts: booked (name, depth, element kind) list equals the reference schema, tree name booked = filled = descriptor, "
                          "descriptor file name equals the file the backend's runner delivers; label/column count mismatch must raise")
    cleanup_scratch()
    # "the output file name in the descriptor is the one the generated job actually writes": at the level of the run script the
    # file delivered on every exit-0 path is <destination directory>/<descriptor file name> (or the file -o names), whatever the
    # destination held before (engine D, the C16 shell model; only the delivery clauses are taken)
    import json
    from ..common import REPLAYS, pmap
    from . import C16
    hists = [[[]], [["o"]], [["d", "o"]], [["c"], ["r", "o"]], [["r", "d", "o"], ["r", "d", "o"]]]
    items = [(b, h, False, 6) for b in C16.SCRIPTS for h in hists]
    shell = {"histories": len(items), "violations": 0, "inconclusive": 0}
    for it, r in zip(items, pmap(C16.analyse_history, items, a.jobs)):
        rep.obligations += 1
        if "__error__" in r or r.get("unsupported"):
            shell["inconclusive"] += 1
            rep.inconc(f"runner.sh {it[0]} {it[1]}", r.get("__error__") or ("outside bash subset: " + r["unsupported"]))
            continue
        bad = [v for v in r["violations"] if "where the output was delivered" in v["clause"] or "default destination" in v["clause"] or "delivered INSIDE" in v["clause"]]
        if not bad and r.get("truncated"):
            shell["inconclusive"] += 1
            rep.inconc(f"runner.sh {it[0]} {it[1]}", "path set truncated (loop unrolling / path cap): only the explored prefix was looked at")
            continue
        if bad:
            shell["violations"] += 1
            d = REPLAYS / "C03" / f"runner-{r['backend']}-{abs(hash(json.dumps(r['history']))) % 10**8}"
            d.mkdir(parents=True, exist_ok=True)
            (d / "finding.json").write_text(json.dumps(r, indent=1, default=str))
            rep.violation(f"{r['backend']} runner.sh, invocations {r['history']}: the file the run delivers is not the descriptor's file at the destination: {bad[0]['clause']}", d)
        else:
            rep.discharged += 1
    cov["delivered_file_at_script_level"] = shell
    sys.exit(rep.finish(cov, ENGINE_A_ASSUMPTIONS + [
        "symbolic column/tree NAMES are covered by C18 (CrossHair); here names are the concrete ones of the enumerated terminal forms",
        "descriptor file name is compared with the literal the runner.sh template delivers (ANALYSIS.root) and with the file the shell model of runner.sh (engine D) delivers on every exit-0 path; the rest of the runner's behaviour is C16"]))


if __name__ == "__main__":
    main()
