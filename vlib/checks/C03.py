"""C03 - output tree schema and returned descriptor match the query's final shape."""
import sys

from ..common import parse_args
from ..tv import gen
from ..tv.translate import BACKENDS
from .tvcheck import ENGINE_A_ASSUMPTIONS, TVCheck, cleanup_scratch


def main():
    a = parse_args("C03")
    N = 2 if a.tier == "quick" else 3
    chk = TVCheck("C03", a.tier, a.seed, N=N, timeout_ms=10000 if a.tier == "quick" else 60000,
                  want=("schema", "rows", "descriptor", "twin"), bad_statuses=("illformed", "illtyped", "frontend"),
                  raised_is_violation=True)
    programs, meta = [], {"families": {}}
    for b in BACKENDS:
        ps = gen.c03_programs(b, a.tier)
        meta["families"][b] = dict(programs=len(ps), must_raise=sum(1 for p in ps if "must_raise" in p.tags))
        programs += ps
    if a.limit:
        programs = programs[: a.limit]
    rep, cov, _ = chk.run(programs, a.jobs, meta)
    cov["explanation"] = ("solver-decided: every column of every filled row equals the value of the query's column expression for all events "
                          "(binding of branch name -> member -> filled value; a narrower member type changes some value); "
                          "front-end facts: booked (name, depth, element kind) list equals the reference schema, tree name booked = filled = descriptor, "
                          "descriptor file name equals the file the backend's runner delivers; label/column count mismatch must raise")
    cleanup_scratch()
    sys.exit(rep.finish(cov, ENGINE_A_ASSUMPTIONS + [
        "symbolic column/tree NAMES are covered by C18 (CrossHair); here names are the concrete ones of the enumerated terminal forms",
        "descriptor file name is compared with the literal the runner.sh template delivers (ANALYSIS.root); the runner's behaviour itself is C16"]))


if __name__ == "__main__":
    main()
