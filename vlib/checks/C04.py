"""C04 - faults are equivalent: loud on empty First / bad index, never spurious; lazy evaluation."""
import sys

from ..common import parse_args
from ..tv import gen
from ..tv.translate import BACKENDS
from .tvcheck import ENGINE_A_ASSUMPTIONS, TVCheck, cleanup_scratch


def main():
    a = parse_args("C04")
    N = 3 if a.tier == "quick" else 4
    chk = TVCheck("C04", a.tier, a.seed, N=N, timeout_ms=10000 if a.tier == "quick" else 60000,
                  want=("rows", "nofault", "loud", "twin"), bad_statuses=("illformed", "illtyped", "frontend"),
                  raised_is_violation=True)
    programs, meta = [], {"families": {}}
    for b in BACKENDS:
        ps = gen.c04_programs(b, a.tier)
        if a.tier == "thorough":
            extra, _ = gen.c01_programs(b, "quick", a.seed)
            ps += [p for p in extra if ".First()" in p.src or "[" in p.src.split("lambda", 1)[-1]]
        meta["families"][b] = dict(programs=len(ps))
        programs += ps
    if a.limit:
        programs = programs[: a.limit]
    rep, cov, _ = chk.run(programs, a.jobs, meta)
    cleanup_scratch()
    sys.exit(rep.finish(cov, ENGINE_A_ASSUMPTIONS + [
        "null links are symbolic for every pointer/Ref-typed method return; a null dereference in C++ is a fault of kind 'silent/UB' and can never count as loud",
        "laziness = under 'query defined on this event' no fault (null dereference, at() failure, throw) is reachable in the emitted code"]))


if __name__ == "__main__":
    main()
