"""C05 - rows for an event depend on that event only (self-composition, one inductive step)."""
import sys

from ..common import parse_args
from ..tv import gen
from ..tv.translate import BACKENDS
from .tvcheck import ENGINE_A_ASSUMPTIONS, TVCheck, cleanup_scratch


def main():
    a = parse_args("C05")
    N = 3 if a.tier == "quick" else 4
    chk = TVCheck("C05", a.tier, a.seed, N=N, timeout_ms=10000 if a.tier == "quick" else 60000,
                  want=("selfcomp",), bad_statuses=(), raised_is_violation=False)
    programs, meta = [], {"families": {}}
    for b in BACKENDS:
        ps, m = gen.c01_programs(b, a.tier, a.seed)
        if a.tier == "quick" and b != "atlas":
            ps = ps[::3]
        ps += [p for p in gen.c04_programs(b, a.tier)] + gen.c05_extra(b)
        meta["families"][b] = dict(m, programs=len(ps))
        programs += ps
    if a.limit:
        programs = programs[: a.limit]
    rep, cov, _ = chk.run(programs, a.jobs, meta)
    cov["explanation"] = ("reference-free self-composition: the per-event code is executed symbolically twice on the same symbolic event from two "
                          "independent pre-states (all scalar class members and all uninitialised block locals arbitrary and different; vector members empty = Inv); "
                          "z3 shows rows and fault outcomes equal, and Inv (every vector column empty) restored at the end of every non-faulting event - "
                          "one inductive step, which covers event sequences of any length and any order")
    cleanup_scratch()
    sys.exit(rep.finish(cov, ENGINE_A_ASSUMPTIONS + [
        "Inv holds after booking (default-constructed members)",
        "opaque user C++ (add_cpp_function) is a pure function of its arguments; hidden static state in user code is outside the claim",
        "a counterexample whose pre-state no concrete history [E, E0, E, E] reproduces is reported inconclusive (invariant too weak), not as a violation"]))


if __name__ == "__main__":
    main()
