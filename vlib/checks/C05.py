"""C05 - rows for an event depend on that event only (self-composition, one inductive step)."""
import sys

from ..common import parse_args
from ..tv import gen
from ..tv.translate import BACKENDS
from .tvcheck import ENGINE_A_ASSUMPTIONS, TVCheck, cleanup_scratch


def main():
    a = parse_args("C05")
    N = 3 if a.tier == "quick" else 4
    chk = TVCheck("C05", a.tier, a.seed, N=N, timeout_ms=10000 if a.tier == "quick" else 60000,
                  want=("selfcomp",), bad_statuses=(), raised_is_violation=False)
    programs, meta = [], {"families": {}}
    for b in BACKENDS:
        ps, m = gen.c01_programs(b, a.tier, a.seed)
        if a.tier == "quick" and b != "atlas":
            ps = ps[::3]
        ps += [p for p in gen.c04_programs(b, a.tier)] + gen.c05_extra(b)
        meta["families"][b] = dict(m, programs=len(ps))
        programs += ps
    if a.limit:
        programs = programs[: a.limit]
    rep, cov, _ = chk.run(programs, a.jobs, meta)
    cov["explanation"] = ("reference-free self-composition: the per-event code is executed symbolically twice on the same symbolic event from two "
                          "independent pre-states (all scalar class members and all uninitialised block locals arbitrary and different; vector members empty = Inv); "
                          "z3 shows rows and fault outcomes equal, and Inv (every vector column empty) restored at the end of every non-faulting event - "
                          "one inductive step, which covers event sequences of any length and any order")
    cleanup_scratch()
    # "... or split across jobs": at the level of the run script, the job of one invocation must read exactly the input it was
    # given, whatever earlier invocations in the same working area did (engine D, the C16 shell model; only that clause is taken)
    import json
    from ..common import REPLAYS, pmap
    from . import C16
    split_hist = [[["r", "d", "o"], ["r", "d", "o"]], [["d", "o"], ["r", "d", "o"]], [["c"], ["r", "d"], ["r", "d"]], [["r", "d"], ["r", "d"], ["r", "d"]]]
    items = [(b, h, False, 6) for b in C16.SCRIPTS for h in split_hist]
    shell = {"histories": len(items), "violations": 0, "inconclusive": 0}
    for it, r in zip(items, pmap(C16.analyse_history, items, a.jobs)):
        rep.obligations += 1
        if "__error__" in r or r.get("unsupported"):
            shell["inconclusive"] += 1
            rep.inconc(f"runner.sh {it[0]} {it[1]}", r.get("__error__") or ("outside bash subset: " + r["unsupported"]))
            continue
        bad = [v for v in r["violations"] if "sole input" in v["clause"]]
        if bad:
            shell["violations"] += 1
            d = REPLAYS / "C05" / f"runner-{r['backend']}-{abs(hash(json.dumps(r['history']))) % 10**8}"
            d.mkdir(parents=True, exist_ok=True)
            (d / "finding.json").write_text(json.dumps(r, indent=1, default=str))
            rep.violation(f"{r['backend']} runner.sh, invocations {r['history']}: a job reads input that is not its own: {bad[0]['clause']}", d)
        else:
            rep.discharged += 1
    cov["job_splitting_at_script_level"] = shell
    sys.exit(rep.finish(cov, ENGINE_A_ASSUMPTIONS + [
        "Inv holds after booking (default-constructed members)",
        "opaque user C++ (add_cpp_function) is a pure function of its arguments; hidden static state in user code is outside the claim",
        "a counterexample whose pre-state no concrete history [E, E0, E, E] reproduces is reported inconclusive (invariant too weak), not as a violation"]))


if __name__ == "__main__":
    main()
