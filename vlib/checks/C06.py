"""C06 - event collections are fetched by the requested bank, type and backend idiom."""
import sys

from ..common import parse_args
from . import chcheck
from .tvcheck import ENGINE_A_ASSUMPTIONS, TVCheck, cleanup_scratch


def main():
    a = parse_args("C06")
    bank = lambda n: n.startswith("bank_")     # noqa: E731
    mods = [("h_c06", 120, None), ("h_c18_s0", 120, bank), ("h_c18_s1", 300, bank)]
    if a.tier == "thorough":
        mods.append(("h_c18_s2", 1500, bank))
    rep, cov, assumptions = chcheck.run(
        "C06", a.tier, a.seed, mods, jobs=a.jobs,
        functions=["func_adl_xAOD.common.meta_data.process_metadata (three collection-declaration branches)",
                   "<backend>.executor.build_collection_callback", "whole translator with a symbolic bank string (retrieval literal)",
                   "rendered packages of the collection programs (engine A, symbolic store: present/status per (type, bank))"],
        explanation="(1) bank string symbolic through the real pipeline on the three backends: the retrieval statement carries a literal denoting exactly the bank; "
                    "(2) engine A with the event store keyed by (container type, bank) and a symbolic 'present' per key: the requests equal the collections the query names, "
                    "with the backend idiom (status-checked retrieve / getByLabel / getByToken with one token per use, initialised once), rows equal the query's, "
                    "an absent collection is never dereferenced and fails loudly; headers and link libraries of the frozen table present; "
                    "(3) CrossHair on process_metadata with list-backed Mapping: every key outside the documented set raises, contains_collection/element_type "
                    "consistency, declaration fields reach the specification, a declaration for another backend is refused, element_pointer honoured; "
                    "wrong argument count/type and singleton-as-sequence must raise")
    from ..tv import gen
    from ..tv.translate import BACKENDS
    tv = TVCheck("C06", a.tier, a.seed, N=2 if a.tier == "quick" else 3, timeout_ms=10000 if a.tier == "quick" else 60000,
                 want=("rows", "nofault", "store", "complete", "twin"), bad_statuses=("illformed", "illtyped", "frontend"), raised_is_violation=True)
    progs = []
    for b in BACKENDS:
        progs += gen.c06_programs(b)
    _, tvcov, _ = tv.run(progs, a.jobs, {}, rep=rep)
    cleanup_scratch()
    cov["collection_programs"] = {"programs": tvcov["programs"], "statuses": tvcov["program_statuses"], "bounds": tvcov["bounds"]}
    # a metadata declaration belongs to the query that carries it: the built-in is back for the next query on the same executor
    from . import C07
    import json as _json
    hist_cases = []
    for op in ("ok_coll", "ok_newcoll", "fail_coll", "fail_newcoll"):
        for probe in ("typed_method", "undeclared_collection"):
            hist_cases.append(([(op, "shared")], probe, "shared", False))
    base_cases = [([], p_, "new", False) for p_ in ("typed_method", "undeclared_collection")]
    hres = C07.fresh_map(hist_cases + base_cases, a.jobs)
    fresh = {c[1]: r for c, r in zip(base_cases, hres[len(hist_cases):])}
    for c, r in zip(hist_cases, hres):
        rep.obligations += 1
        b = fresh[c[1]]
        if "error" in r or "error" in b:
            rep.inconc(f"history {c[0]} probe {c[1]}", r.get("error") or b.get("error"))
        elif r["outcome"] != b["outcome"] or (r["outcome"] == "ok" and r["files"] != b["files"]):
            d = chcheck.REPLAYS / "C06" / f"history_{c[0][0][0]}_{c[1]}"
            d.mkdir(parents=True, exist_ok=True)
            (d / "finding.json").write_text(_json.dumps({"history": c[0], "probe": C07.PROBES[c[1]], "declaring_query": C07.OPS[c[0][0][0]][0],
                                                         "after_history": r.get("outcome"), "fresh": b.get("outcome")}, indent=1))
            rep.violation(f"collection declaration of an earlier query still in force: history {c[0]} then probe '{c[1]}' on the same executor gives "
                          f"{r['outcome']} / different package, fresh executor gives {b['outcome']}", d)
        else:
            rep.discharged += 1
    sys.exit(rep.finish(cov, assumptions + ENGINE_A_ASSUMPTIONS[:3] + [
        "built-in collection table (name -> container type, element type, element indirection, header, library) is a frozen oracle in vlib/tv/model.py written from the README / data formats, not read from event_collections.py",
        "the jinja2 step between emitted lines and files is covered by the front end (rendered = static text + slot lines)"]))


if __name__ == "__main__":
    main()
