"""C07 - translating a query is independent of every query handled before it."""
import itertools
import json
import multiprocessing as mp
import re
import sys
import time
import traceback
from dataclasses import dataclass
from pathlib import Path

from ..common import Report, parse_args

from ..common import REPLAYS  # noqa: E402

MTI = {"metadata_type": "add_method_type_info", "type_string": "xAOD::Jet", "method_name": "pt", "return_type": "int"}
ENUM = {"metadata_type": "define_enum", "namespace": "xAOD.Jet", "name": "Color", "values": ["Red", "Blue"]}
COLL = {"metadata_type": "add_atlas_event_collection_info", "name": "Jets", "include_files": ["my/Thing.h"], "container_type": "my::ThingContainer",
        "element_type": "my::Thing", "contains_collection": True, "link_libraries": ["myThingLib"]}
NEWCOLL = dict(COLL, name="ForkJets")
CPPFN = {"metadata_type": "add_cpp_function", "name": "twice", "include_files": ["twice.h"], "arguments": ["x"], "code": ["double result = x * 2;"],
         "result_name": "result", "return_type": "double"}
JOB = {"metadata_type": "add_job_script", "name": "blk", "script": ["leaked_job_option = 1"], "depends_on": []}
INJECT = {"metadata_type": "inject_code", "name": "blk", "body_includes": ["leaked.h"], "private_members": ["int leaked_member;"], "link_libraries": ["leakedLib"]}
DOCKER = {"metadata_type": "docker", "image": "leaked/image:1"}

GOOD_BODY = "lambda e: e.Jets('A').Select(lambda j: j.eta())"
BAD_BODY = "lambda e: e.Jets('A').Select(lambda j: j.eta() // 2)"      # unsupported operator: translation fails after the metadata was processed


def q(mds, body):
    src = "EventDataset('ds')"
    for m in mds:
        src = f"MetaData({src}, {m!r})"
    return f"Select({src}, {body})"


OPS = {}
for name, md in (("mti", MTI), ("enum", ENUM), ("coll", COLL), ("newcoll", NEWCOLL), ("cppfn", CPPFN), ("job", JOB), ("inject", INJECT), ("docker", DOCKER)):
    OPS["ok_" + name] = (q([md], GOOD_BODY), True)
    OPS["fail_" + name] = (q([md], BAD_BODY), False)
# a declaration for a class the backend itself pre-declares methods for (its table of defaults must stay what it was)
MTI_DEFAULT_CLASS = {"metadata_type": "add_method_type_info", "type_string": "xAOD::TruthParticle", "method_name": "charge", "return_type": "int"}
MTI_DEFAULT_METHOD = {"metadata_type": "add_method_type_info", "type_string": "xAOD::TruthParticle", "method_name": "parent", "return_type": "int"}
OPS["ok_mti_default_class"] = (q([MTI_DEFAULT_CLASS, MTI_DEFAULT_METHOD], "lambda e: e.TruthParticles('t').Select(lambda p: p.charge() + p.parent())"), True)
OPS["fail_mti_default_class"] = (q([MTI_DEFAULT_CLASS, MTI_DEFAULT_METHOD], "lambda e: e.TruthParticles('t').Select(lambda p: p.charge() // 2)"), False)
OPS["ok_plain"] = (q([], GOOD_BODY), True)
OPS["fail_plain"] = (q([], BAD_BODY), False)
OPS["fail_badmd"] = (q([MTI, {"metadata_type": "no_such"}], GOOD_BODY), False)
# a declaration followed / preceded by a refused block, in both attachment orders (whichever is processed first)
OPS["fail_badmd_rev"] = (q([{"metadata_type": "no_such"}, MTI], GOOD_BODY), False)
OPS["fail_enum_badmd"] = (q([{"metadata_type": "no_such"}, ENUM, MTI, COLL], GOOD_BODY), False)
OPS["fail_badkey_after_mti"] = (q([dict(INJECT, no_such_field=["x"]), MTI, ENUM], GOOD_BODY), False)
OPS["fail_mti_then_badkey"] = (q([MTI, ENUM, dict(INJECT, no_such_field=["x"])], GOOD_BODY), False)
# failures raised late, in write_cpp_files' dataset lookup, after all metadata has been processed
OPS["fail_twods"] = (q([MTI, JOB, INJECT, DOCKER], "lambda e: e.Jets('A').Select(lambda j: j.eta() + EventDataset('d2').Count())"), False)
OPS["fail_nods"] = (q([MTI, JOB, INJECT, DOCKER], GOOD_BODY).replace("EventDataset('ds')", "some_name"), False)
# a query that is only transformed (apply_ast_transformations) and never written: its declarations must not reach the next one
APPLY_ONLY = {"apply_inject": q([INJECT, JOB], GOOD_BODY), "apply_mti": q([MTI, ENUM, DOCKER], GOOD_BODY), "apply_plain": q([], GOOD_BODY)}
for _k, _src in APPLY_ONLY.items():
    OPS[_k] = (_src, True)

# operations on the CMS backends (each on that backend's own shared / new executor)
CMS_BODY = "lambda e: e.Muons('m').Select(lambda m: m.pt())"
CMS_BAD = "lambda e: e.Muons('m').Select(lambda m: m.pt() // 2)"
OP_BACKEND = {}
for _b, _short in (("cms_aod", "aod"), ("cms_miniaod", "mini")):
    OPS[f"ok_{_short}_muons"] = (q([], CMS_BODY), True)
    OPS[f"fail_{_short}_muons"] = (q([], CMS_BAD), False)
    OPS[f"apply_{_short}_muons"] = (q([], CMS_BODY), True)
    APPLY_ONLY[f"apply_{_short}_muons"] = OPS[f"apply_{_short}_muons"][0]
    for _k in (f"ok_{_short}_muons", f"fail_{_short}_muons", f"apply_{_short}_muons"):
        OP_BACKEND[_k] = _b
ATLAS_OPS = [o for o in OPS if o not in OP_BACKEND]

PROBES = {
    "typed_method": q([], "lambda e: e.Jets('A').Select(lambda j: j.pt())"),                      # column type / container type / includes
    "free_enum_name": q([], "lambda e: e.Jets('A').Where(lambda j: j.color() == xAOD.Jet.Color.Red).Count()"),   # must raise: enum not declared
    "undeclared_function": q([], "lambda e: e.Jets('A').Select(lambda j: twice(j.pt()))"),       # must raise
    "undeclared_collection": q([], "lambda e: e.ForkJets('A').Count()"),                          # must raise
    # a class the OTHER backends pre-declare methods for, reached through a collection this query declares: whatever CMS executors
    # were created or used before, the ATLAS translation knows nothing about reco::Track::hitPattern (must raise)
    "foreign_default_class": q([dict(COLL, name="Trks", container_type="my::TrkContainer", element_type="reco::Track")],
                               "lambda e: e.Trks('x').Select(lambda t: t.hitPattern().n())"),
    # methods of a class with backend defaults: an undeclared one is a double, a default one keeps its default type
    "default_class_methods": q([], "lambda e: e.TruthParticles('t').Select(lambda p: p.charge())"),
    "default_class_default_method": q([], "lambda e: e.TruthParticles('t').Where(lambda p: p.parent().pt() > 1.5).Count()"),
    "own_job_script": q([{"metadata_type": "add_job_script", "name": "mine", "script": ["my_option = 2"], "depends_on": []}], "lambda e: e.Jets('A').Count()"),
    "own_declarations": q([dict(MTI, return_type="float"), dict(INJECT, body_includes=["mine.h"], private_members=[], link_libraries=[])],
                          "lambda e: e.Jets('A').Select(lambda j: j.pt())"),
    # column names that differ only by trailing digits: whatever the counters of earlier queries were, the package must be the
    # fresh one up to numbering (same declaration order, distinct members)
    "digit_columns": q([], "lambda e: {'pt': e.Jets('A').Select(lambda j: j.pt()), 'pt2': e.Jets('A').Count(), 'pt22': e.Jets('A').Select(lambda j: j.eta()), "
                           "'x1': e.Jets('A').Count() + 1, 'x': e.Jets('A').Count() + 2, 'x11': e.Jets('A').Count() + 3}"),
}
# probes used only after LONG histories (10..12 repetitions of one plain query): generated names must stay distinct whatever the
# counters of earlier queries were
WIDE_PROBES = {
    "wide_tuple": q([], "lambda e: (" + ", ".join(f"e.Jets('A').Count() + {i}" for i in range(13)) + ")"),
    "wide_dict": q([], "lambda e: {" + ", ".join(f"'col{i}': e.Jets('A').Count() * {i + 1}" for i in range(12)) + "}"),
}
# probes on the CMS backends (their default method types live in the same process-global registry the ATLAS executor resets)
XB_PROBES = {"cms_aod_defaults": "cms_aod", "cms_miniaod_defaults": "cms_miniaod", "cms_aod_two": "cms_aod", "cms_miniaod_two": "cms_miniaod",
             "cms_miniaod_other_bank": "cms_miniaod"}
XB_QUERIES = {
    "cms_aod_defaults": q([], "lambda e: e.Muons('m').Select(lambda m: m.globalTrack().pt())"),
    "cms_miniaod_defaults": q([], "lambda e: e.Muons('m').Select(lambda m: m.pt())"),
    # the collection (and bank) an earlier query of the same executor read, next to another one; the same collection from another bank
    "cms_aod_two": q([], "lambda e: (e.Muons('m').Count(), e.Tracks('t').Select(lambda x: x.pt()))"),
    "cms_miniaod_two": q([], "lambda e: (e.Muons('m').Count(), e.Electrons('el').Select(lambda x: x.pt()), e.Muons('m').Select(lambda m: m.eta()))"),
    "cms_miniaod_other_bank": q([], "lambda e: e.Muons('m2').Select(lambda m: m.pt())"),
}
PROBES_ALL = dict(PROBES, **WIDE_PROBES, **XB_QUERIES)


@dataclass
class DockerSpec:
    image: str = "default/image:0"


def canonical(files):
    "rename generated identifiers (prefix + running number) by order of first appearance over all files"
    names = {}
    counters = {}

    def sub(m):
        tok = m.group(0)
        if tok not in names:
            pre = m.group(1)
            counters[pre] = counters.get(pre, 0) + 1
            names[tok] = f"{pre}#{counters[pre]}"
        return names[tok]
    out = {}
    lit = re.compile(r'"(?:[^"\\\n]|\\.)*"')
    for k in sorted(files):
        # generated names live in code, not in string literals: a literal's text (bank / column names, the First() message with
        # the user's own parameter names) is left as it is, so a user name that merely LOOKS generated takes no number
        parts, pos = [], 0
        for m in lit.finditer(files[k]):
            parts.append(re.sub(r"\b(_?[A-Za-z][A-Za-z0-9_]*?)(\d+)\b", sub, files[k][pos:m.start()]))
            parts.append(m.group(0))
            pos = m.end()
        parts.append(re.sub(r"\b(_?[A-Za-z][A-Za-z0-9_]*?)(\d+)\b", sub, files[k][pos:]))
        out[k] = "".join(parts)
    return out


def run_case(case):
    """Executed in a pristine forked process: ops then probe.  Returns the probe's outcome."""
    import logging
    import tempfile
    import shutil
    logging.disable(logging.CRITICAL)
    from ..tv.translate import make_executor, parse_query
    history, probe, probe_mode, state_only = case
    shared = {}
    trace = []
    # probes of another backend: the executor of that backend is created BEFORE the history (of ATLAS operations) runs
    early = {b: make_executor(b) for b in ("cms_aod", "cms_miniaod")} if probe in XB_PROBES and probe_mode == "early" else {}
    if probe_mode == "ctor":
        # executors of the other backends are merely CREATED before the history / the probe run
        _unused = [make_executor(b) for b in ("cms_aod", "cms_miniaod")]
        probe_mode = "new"

    def one(src, mode, expect=None, apply_only=False, backend="atlas"):
        if mode == "early":
            exe = early[backend]
        elif mode == "shared":
            if backend not in shared:
                shared[backend] = make_executor(backend)
            exe = shared[backend]
        else:
            exe = make_executor(backend)
        exe.add_extended_md({"docker": DockerSpec()})
        d = Path(tempfile.mkdtemp(prefix="c07"))
        try:
            a = exe.apply_ast_transformations(parse_query(src))
            if apply_only:
                return ("ok", {}, [], None)
            info = exe.write_cpp_files(a, d)
            files = {p.name: p.read_text() for p in d.iterdir() if p.is_file()}
            docker = [x.image for x in exe.extended_md("docker")]
            return ("ok", files, docker, info.result_rep.treename)
        except Exception as e:  # noqa: BLE001
            return ("raised", type(e).__name__, str(e)[:200])
        finally:
            shutil.rmtree(d, ignore_errors=True)
    for opname, mode in history:
        src, expect_ok = OPS[opname]
        r = one(src, mode, apply_only=opname in APPLY_ONLY, backend=OP_BACKEND.get(opname, "atlas"))
        trace.append((opname, mode, r[0]))
        if (r[0] == "ok") != expect_ok:
            return {"error": f"operation {opname} expected {'success' if expect_ok else 'failure'} but {r[0]}: {r[1:3] if r[0] != 'ok' else ''}", "trace": trace}
    if state_only:
        import func_adl_xAOD.common.cpp_types as ctyp
        import func_adl_xAOD.common.executor as ex
        st = {"g_method_type_dict": sorted((k, sorted(v)) for k, v in ctyp.g_method_type_dict.items() if not k.startswith("xAOD::TruthParticle")),
              "g_toplevel_ns": sorted(ctyp.g_toplevel_ns),
              "executor_default_extended_md": sorted((ex.executor.__init__.__defaults__ or ({},))[-1] or {}) if isinstance((ex.executor.__init__.__defaults__ or (None,))[-1], dict) else []}
        if shared.get("atlas") is not None:
            sh0 = shared["atlas"]
            st.update({"job_option_blocks": [b.name for b in sh0._job_option_blocks], "inject_blocks": [b.name for b in sh0._inject_blocks],
                       "extended_md_found": {k: len(v) for k, v in sh0._found_extended_md.items() if v},
                       "method_names": sorted(sh0._method_names)})
        return {"state": st, "trace": trace}
    r = one(PROBES_ALL[probe], probe_mode, backend=XB_PROBES.get(probe, "atlas"))
    if r[0] == "ok":
        return {"outcome": "ok", "files": canonical(r[1]), "raw": r[1], "docker": r[2], "tree": r[3], "trace": trace}
    return {"outcome": "raised", "exc": r[1], "msg": r[2], "trace": trace}


def run_shared_subtree(_case):
    """Two queries built by the caller from ONE base AST object (they share sub-trees, as two func_adl queries built from a
    common `base = ds.SelectMany(...)` do), each with its own collection declaration.  Returns the package of the second."""
    import ast as _ast
    import logging
    import shutil
    import tempfile
    logging.disable(logging.CRITICAL)
    from ..tv.translate import make_executor
    shared = _case[0] == "shared"
    md1 = dict(COLL, name="MyJets")
    md2 = dict(COLL, name="MyJets", container_type="my::OtherContainer", element_type="my::Other", include_files=["my/Other.h"], link_libraries=["myOtherLib"])
    base = _ast.parse("SelectMany(EventDataset('ds'), lambda e: e.MyJets('AntiKt4'))", mode="eval").body

    def build(md, b):
        inner = _ast.Call(func=_ast.Name(id="MetaData", ctx=_ast.Load()), args=[b.args[0], _ast.parse(repr(md), mode="eval").body], keywords=[])
        sm = _ast.Call(func=b.func, args=[inner, b.args[1]], keywords=[])
        return _ast.fix_missing_locations(_ast.Call(func=_ast.Name(id="Select", ctx=_ast.Load()), args=[sm, _ast.parse("lambda j: j.pt()", mode="eval").body], keywords=[]))

    def translate(tree):
        exe = make_executor("atlas")
        d = Path(tempfile.mkdtemp(prefix="c07s"))
        try:
            exe.write_cpp_files(exe.apply_ast_transformations(tree), d)
            return {"outcome": "ok", "files": canonical({p_.name: p_.read_text() for p_ in d.iterdir() if p_.is_file()})}
        except Exception as e:  # noqa: BLE001
            return {"outcome": "raised", "exc": type(e).__name__, "msg": str(e)[:200]}
        finally:
            shutil.rmtree(d, ignore_errors=True)
    if shared:
        translate(build(md1, base))                # first query: its translation must not change what the second one means
        return translate(build(md2, base))
    fresh_base = _ast.parse("SelectMany(EventDataset('ds'), lambda e: e.MyJets('AntiKt4'))", mode="eval").body
    return translate(build(md2, fresh_base))


def run_interleaved(case):
    """The two calls of one translation (apply_ast_transformations, write_cpp_files) with another query's transformation in
    between on the same executor, and one transformed query written twice.  Returns the package under test."""
    import logging
    import shutil
    import tempfile
    logging.disable(logging.CRITICAL)
    from ..tv.translate import make_executor, parse_query
    kind = case[0]
    md_a = {"metadata_type": "add_job_script", "name": "blk_a", "script": ["option_a = 1"], "depends_on": []}
    md_b = {"metadata_type": "add_job_script", "name": "blk_b", "script": ["option_b = 2"], "depends_on": []}
    inj_a = dict(INJECT, name="inj_a", body_includes=["a_only.h"], private_members=["int a_member;"], link_libraries=["aLib"])
    inj_b = dict(INJECT, name="inj_b", body_includes=["b_only.h"], private_members=["int b_member;"], link_libraries=["bLib"])
    qa = q([md_a, inj_a], GOOD_BODY)
    qb = q([md_b, inj_b], "lambda e: e.Jets('B').Count()")

    def write(exe, a):
        d = Path(tempfile.mkdtemp(prefix="c07i"))
        try:
            exe.write_cpp_files(a, d)
            return {"outcome": "ok", "files": canonical({p_.name: p_.read_text() for p_ in d.iterdir() if p_.is_file()})}
        except Exception as e:  # noqa: BLE001
            return {"outcome": "raised", "exc": type(e).__name__, "msg": str(e)[:200]}
        finally:
            shutil.rmtree(d, ignore_errors=True)
    exe = make_executor("atlas")
    if kind == "fresh":
        return write(exe, exe.apply_ast_transformations(parse_query(qa)))
    if kind == "interleaved":
        a1 = exe.apply_ast_transformations(parse_query(qa))
        exe.apply_ast_transformations(parse_query(qb))          # another query is transformed before the first one is written
        return write(exe, a1)
    if kind == "written_twice":
        a1 = exe.apply_ast_transformations(parse_query(qa))
        write(exe, a1)
        return write(exe, a1)                                     # the same transformed query written a second time
    raise ValueError(kind)


_INTER_CASES = [("fresh",), ("interleaved",), ("written_twice",)]


def _wrap_inter(i):
    try:
        return run_interleaved(_INTER_CASES[i])
    except Exception as e:  # noqa: BLE001
        return {"error": f"{type(e).__name__}: {e}"}


def _wrap_shared(i):
    try:
        return run_shared_subtree(_SHARED_CASES[i])
    except Exception as e:  # noqa: BLE001
        return {"error": f"{type(e).__name__}: {e}"}


_SHARED_CASES = [("fresh",), ("shared",)]


def _wrap(i):
    try:
        return run_case(_CASES[i])
    except Exception as e:  # noqa: BLE001
        return {"error": f"{type(e).__name__}: {e}", "trace": traceback.format_exc()[-800:]}


_CASES = []


def fresh_map(cases, jobs):
    "every case in its own freshly forked process (the parent never translates anything)"
    global _CASES
    _CASES = list(cases)
    ctx = mp.get_context("fork")
    with ctx.Pool(min(jobs, max(1, len(_CASES))), maxtasksperchild=1) as pool:
        return pool.map(_wrap, range(len(_CASES)), chunksize=1)


def semantic_equal(src, files_a, files_b, dm=None, backend="atlas"):
    "engine A: are two packages for the same query equivalent for all events? -> (bool|None, text)"
    import z3
    from ..tv.equiv import Encoded, Program, check_sat, seq_eq, row_eq, schema_of_cpp
    from ..tv.model import DataModel, Event
    from ..tv.symexec import Not
    from ..tv.translate import Package

    class Info:
        pass
    try:
        dm = dm or DataModel(backend)
        ev = Event(dm, 2)
        prog = Program(src, backend, dm)
        encs = []
        for files in (files_a, files_b):
            pk = Package.__new__(Package)
            pk.backend, pk.files, pk.modes = backend, files, {k: 0o755 for k in files}
            m = re.search(r'tree\("([^"]*)"\)->Fill', files.get("query.cxx", "")) or re.search(r'make<TTree>\("([^"]*)"', files.get("Analyzer.cc", ""))
            pk.treename, pk.filename, pk.main_script, pk.all_filenames = (m.group(1) if m else None), "ANALYSIS.root", "runner.sh", list(files)
            encs.append(Encoded(prog, pk, 2, event=ev, skip_ref=True, tag="AB"[len(encs)]))
        A, B = encs
        if [x[:3] for x in schema_of_cpp(A)] != [x[:3] for x in schema_of_cpp(B)]:
            return False, f"booked columns differ: {[x[:3] for x in schema_of_cpp(A)]} vs {[x[:3] for x in schema_of_cpp(B)]}"
        base = A.base() + B.base()
        claim = z3.And(seq_eq(A.cpp_rows(), B.cpp_rows(), row_eq), A.cpp_fault() == B.cpp_fault())
        r, m, dt, _ = check_sat(base, Not(claim), 10000)
        if r == "unsat":
            return True, "semantically equal for all events (N=2)"
        if r == "sat":
            return False, "rows/faults differ on some event"
        return None, "solver unknown"
    except Exception as e:  # noqa: BLE001
        return None, f"{type(e).__name__}: {e}"


def main():
    a = parse_args("C07")
    rep = Report("C07", a.tier, a.seed, "translation_validation")
    ops = list(ATLAS_OPS)
    modes = ("shared", "new")
    hist1 = [[(o, m)] for o in ops for m in modes]
    if a.tier == "quick":
        fails = [o for o in ops if o.startswith("fail_")]
        oks = [o for o in ops if o.startswith("ok_")]
        hist2 = [[(x, "shared"), (y, "shared")] for x in fails[:5] for y in oks[:5]] + [[(x, "new"), (y, "shared")] for x, y in zip(oks, fails)] \
            + [[(x, "shared"), (y, "new")] for x, y in zip(oks, oks[1:])]
    else:
        hist2 = [[(x, mx), (y, my)] for x in ops for y in ops for mx in modes for my in modes]
    histories = [[]] + hist1 + hist2
    cases = []
    for h in histories:
        for p in PROBES:
            for pm in modes:
                if not h and pm == "shared":
                    continue
                cases.append((h, p, pm, False))
    long_hist = [[("ok_plain", m)] * k for k in (9, 10, 11, 12) for m in modes] + [[("ok_mti", "new")] + [("ok_plain", "shared")] * 10]
    for p in WIDE_PROBES:
        cases.append(([], p, "new", False))
        for h in long_hist:
            for pm in modes:
                cases.append((h, p, pm, False))
    for p in XB_PROBES:
        cases.append(([], p, "new", False))
        for h in [[("ok_plain", "new")], [("ok_mti", "shared")], [("fail_plain", "new")], [("ok_plain", "new"), ("ok_coll", "new")]]:
            for pm in ("early", "new"):
                cases.append((h, p, pm, False))
    # the same backend's executor re-used: the probe reads what an earlier (written / failed / only transformed) query of that
    # executor object read
    for short, b in (("aod", "cms_aod"), ("mini", "cms_miniaod")):
        for p in [x for x, pb in XB_PROBES.items() if pb == b]:
            for o in (f"ok_{short}_muons", f"fail_{short}_muons", f"apply_{short}_muons"):
                for om in modes:
                    for pm in modes:
                        cases.append(([(o, om)], p, pm, False))
            cases.append(([(f"ok_{short}_muons", "shared"), (f"ok_{short}_muons", "shared")], p, "shared", False))
    for o in ("ok_aod_muons", "fail_aod_muons", "apply_aod_muons", "ok_mini_muons"):
        for om in modes:
            cases.append(([(o, om)], "foreign_default_class", "new", False))
            cases.append(([(o, om), ("ok_plain", "new")], "foreign_default_class", "shared", False))
    cases.append(([("ok_plain", "new")], "foreign_default_class", "ctor", False))
    cases.append(([("ok_plain", "new")], "typed_method", "ctor", False))
    state_cases = [(h, None, None, True) for h in [[]] + hist1]
    t0 = time.time()
    results = fresh_map(cases + state_cases, a.jobs)
    res = dict(zip([json.dumps(c[:3]) for c in cases], results[:len(cases)]))
    base = {p: res[json.dumps(([], p, "new"))] for p in PROBES_ALL}
    from ..common import load_known_findings
    kfs = [f for f in load_known_findings("C07") if f.get("status") == "known" and f.get("history_ops")]
    nontrivial = 0
    samples = []
    benign = []
    seen_viol = set()
    def problem_of(c):
        "-> (problem text | None | 'ERR:<why>', diff info for benign bookkeeping)"
        h, p, pm, _ = c
        r = res[json.dumps(c[:3])]
        b = base[p]
        if "error" in r or "error" in b:
            return "ERR:" + str(r.get("error") or b.get("error")), None
        problem = None
        extra = None
        if r["outcome"] != b["outcome"]:
            problem = f"fresh process: {b['outcome']} ({b.get('exc', '')}); after the history: {r['outcome']} ({r.get('exc', '')})"
        elif r["outcome"] == "ok":
            if r["docker"] != b["docker"]:
                problem = f"docker metadata seen by the probe: {r['docker']} vs fresh {b['docker']}"
            elif r["files"] != b["files"]:
                import difflib
                diff_files = [k for k in b["files"] if r["files"].get(k) != b["files"][k]]
                eq, why = (None, "")
                if set(diff_files) <= {"query.cxx", "query.h"}:
                    eq, why = semantic_equal(PROBES_ALL[p], r["raw"], b["raw"])
                d0 = diff_files[0]
                delta = [ln for ln in difflib.unified_diff(b["files"][d0].splitlines(), r["files"][d0].splitlines(), lineterm="", n=0)
                         if ln[:1] in "+-" and not ln.startswith(("+++", "---"))][:6]
                if eq is True:
                    # "the same, up to the numbering of generated names": a difference that renaming does not explain is a
                    # violation even when the two packages compute the same rows (e.g. declarations emitted in another order)
                    extra = (diff_files, why)
                    problem = f"package text differs beyond the numbering of generated names in {diff_files} (rows equal for all events): {delta}"
                else:
                    problem = f"package differs in {diff_files}: {delta} {why}"
        return problem, extra

    problems = {}
    for c in cases:
        if c[0]:
            problems[json.dumps(c[:3])] = problem_of(c)
    for c in cases:
        h, p, pm, _ = c
        if not h:
            continue
        r = res[json.dumps(c[:3])]
        tag = f"history={h} probe={p} on {pm} executor"
        rep.obligations += 1
        problem, extra = problems[json.dumps(c[:3])]
        if isinstance(problem, str) and problem.startswith("ERR:"):
            rep.inconc(tag, problem[4:])
            continue
        nontrivial += 1
        if extra is not None:
            benign.append((tag, extra[0], extra[1]))
        if problem:
            # a listed finding explains the problem only if (i) one of its operations is in the history, (ii) probe and symptom match,
            # and (iii) the SAME case without those operations shows no problem (so anything else that is wrong is still reported)
            kf = None
            for f in kfs:
                if not any(o in f["history_ops"] for o, _ in h) or p not in f["probes"] or not re.search(f["problem_regex"], problem):
                    continue
                h2 = [(o, m_) for o, m_ in h if o not in f["history_ops"]]
                if not h2:
                    kf = f
                    break
                other = problems.get(json.dumps((h2, p, pm)))
                if other is not None and other[0] is None:
                    kf = f
                    break
            if kf is not None:
                rep.known(kf["id"], kf["what"][:200] + f" | observed: {tag[:160]}")
                continue
            key = (p, problem[:80])
            d = REPLAYS / "C07" / re.sub(r"\W+", "_", f"{h}_{p}_{pm}")[:120]
            d.mkdir(parents=True, exist_ok=True)
            (d / "finding.json").write_text(json.dumps({"history": h, "probe": p, "probe_query": PROBES_ALL[p], "executor": pm, "problem": problem,
                                                        "ops": {o: OPS[o][0] for o, _ in h}}, indent=1))
            if key not in seen_viol or len(seen_viol) < 40:
                seen_viol.add(key)
                rep.violation(f"{tag}: {problem}", d)
        else:
            rep.discharged += 1
        if len(samples) < 8 and h:
            samples.append({"history": h, "probe": p, "executor": pm, "outcome": r.get("outcome"), "same_as_fresh": problem is None})
    # translation must not mutate the caller's AST: two queries sharing sub-trees, each in a fresh process
    rep.obligations += 1
    ctx_ = mp.get_context("fork")
    with ctx_.Pool(2, maxtasksperchild=1) as pool_:
        fr, sh_ = pool_.map(_wrap_shared, range(2), chunksize=1)
    if "error" in fr or "error" in sh_:
        rep.inconc("shared sub-tree scenario", fr.get("error") or sh_.get("error"))
    elif fr != sh_:
        d = REPLAYS / "C07" / "shared_subtree"
        d.mkdir(parents=True, exist_ok=True)
        diff = [k for k in (fr.get("files") or {}) if (sh_.get("files") or {}).get(k) != fr["files"][k]] if fr.get("outcome") == sh_.get("outcome") == "ok" else []
        (d / "finding.json").write_text(json.dumps({"fresh": fr.get("outcome"), "after_first_query": sh_.get("outcome"), "files_differ": diff}, indent=1))
        rep.violation("a query built from AST objects that an earlier query (same base sub-tree, another collection declaration) was also built from: "
                      f"package differs from the one a fresh parse gives ({diff or (fr.get('outcome'), sh_.get('outcome'))}) - the earlier translation rewrote the shared nodes", d)
    else:
        rep.discharged += 1
    # the two calls of one translation with another transformation in between / one transformed query written twice
    with ctx_.Pool(3, maxtasksperchild=1) as pool_:
        fr_i, il_i, tw_i = pool_.map(_wrap_inter, range(3), chunksize=1)
    ikfs = {f["id"]: f for f in load_known_findings("C07") if f.get("status") == "known" and f.get("interleaving")}
    for label, got in (("interleaved", il_i), ("written_twice", tw_i)):
        rep.obligations += 1
        if "error" in fr_i or "error" in got:
            rep.inconc(f"{label} scenario", fr_i.get("error") or got.get("error"))
        elif got != fr_i:
            diff = [k for k in (fr_i.get("files") or {}) if (got.get("files") or {}).get(k) != fr_i["files"][k]] if fr_i.get("outcome") == got.get("outcome") == "ok" else []
            kf_ = next((f for f in ikfs.values() if f["interleaving"] == label), None)
            if kf_ is not None and set(diff) <= set(kf_.get("files", [])) and diff:
                rep.known(kf_["id"], kf_["what"][:200] + f" | observed: {label}: files {diff} differ from the fresh package")
                continue
            d = REPLAYS / "C07" / f"scenario_{label}"
            d.mkdir(parents=True, exist_ok=True)
            (d / "finding.json").write_text(json.dumps({"scenario": label, "fresh": fr_i.get("outcome"), "got": got.get("outcome"), "files_differ": diff}, indent=1))
            rep.violation(f"scenario {label}: the package written for the query differs from the one a fresh executor gives ({diff or (fr_i.get('outcome'), got.get('outcome'))})", d)
        else:
            rep.discharged += 1
    # supporting observation (not a solver claim): registries after each single operation vs the fresh state
    st = results[len(cases):]
    s0 = st[0].get("state", {})
    leaks = []
    for (h, _, _, _), r in zip(state_cases[1:], st[1:]):
        if "state" not in r:
            continue
        for k, v in r["state"].items():
            ref = s0.get(k, [] if isinstance(v, list) else {})
            if k in ("job_option_blocks", "inject_blocks"):
                ref = []
            if k == "extended_md_found":
                ref = {}
            if k == "method_names":
                continue
            if v != ref:
                leaks.append({"after": h, "registry": k, "value": v})
    cov = {
        "programs": len(cases), "disagreements_checked": len(benign) + len(rep.violations),
        "evaluations": len(cases), "distinct_nontrivial": nontrivial,
        "rule": "one case = (history of <=2 operations, probe query, executor reuse mode), each run in its own freshly forked process and compared with the probe in a fresh process",
        "samples": samples or [{"note": "none"}],
        "bounds": {"history_length": 2, "long_histories": "9..12 repetitions of one plain query, wide (12-13 column) probes", "operations": len(ops), "executor_modes": list(modes), "probes": list(PROBES), "N": 2},
        "benign_textual_differences": benign[:10],
        "registries_differing_from_fresh_state_after_one_operation": leaks[:30],
        "explanation": "packages are compared after canonical renaming of generated names; a textual difference in the C++ files is decided by engine A (z3: rows/faults/schema "
                       "of the two packages equal for all events up to N); raise-vs-return must agree. The registry comparison after every single operation is a supporting "
                       "observation (inductive argument for longer histories), not a solver claim",
    }
    sys.exit(rep.finish(cov, [
        "histories longer than 2 operations are covered only by the inductive observation (registries equal to the fresh state after every operation)",
        "declared names are concrete (CrossHair realises hashed dictionary keys, so symbolic names would be enumeration in disguise)",
        "operations and probes on the ATLAS executor, plus repeated queries on re-used CMS AOD / miniAOD executors; the registries and reset logic are in common/",
        "a fresh process is approximated by a freshly forked child of a parent that never ran a translation"]))


if __name__ == "__main__":
    main()
