"""C08 - translation is invariant under wire format, bound names and metadata position."""
import ast
import copy
import json
import re
import sys
from pathlib import Path

from ..common import Report, parse_args, pmap
from .C07 import canonical

from ..common import REPLAYS  # noqa: E402

SPECIAL_NAMES = ["arg_0", "arg_1", "e", "Jets", "abs", "result", "Select", "Count", "collection_name", "i_obj1", "jets0", "xAOD", "acc", "x"]


# ------------------------------------------------------------------ variant generators (on python ASTs)
def lambdas_of(tree):
    return [n for n in ast.walk(tree) if isinstance(n, ast.Lambda)]


def free_names(node, bound=()):
    "free Name ids of an expression"
    out = set()

    def go(n, bound):
        if isinstance(n, ast.Lambda):
            b2 = bound | {a.arg for a in n.args.args}
            go(n.body, b2)
            return
        if isinstance(n, ast.Name):
            if n.id not in bound:
                out.add(n.id)
            return
        for c in ast.iter_child_nodes(n):
            go(c, bound)
    go(node, set(bound))
    return out


def rename_param(tree, lam_index, param_index, new):
    """Alpha-rename one lambda parameter (capture-avoiding). Returns new tree or None if invalid."""
    t = copy.deepcopy(tree)
    lams = lambdas_of(t)
    lam = lams[lam_index]
    old = lam.args.args[param_index].arg
    if new == old or new in {a.arg for a in lam.args.args}:
        return None
    if new in free_names(lam.body, {a.arg for a in lam.args.args}):
        return None          # would capture a free name of the body
    ok = True

    def go(n, shadowed):
        nonlocal ok
        if isinstance(n, ast.Lambda):
            params = {a.arg for a in n.args.args}
            if old in params:
                return        # old is re-bound: occurrences below are another variable
            if new in params and old in free_names(n.body, params):
                ok = False    # an inner binder of `new` would capture our variable
            go(n.body, shadowed)
            return
        if isinstance(n, ast.Name) and n.id == old:
            n.id = new
            return
        for c in ast.iter_child_nodes(n):
            go(c, shadowed)
    go(lam.body, set())
    if not ok:
        return None
    lam.args.args[param_index].arg = new
    return t


def renamings(tree, rich):
    lams = lambdas_of(tree)
    out = []
    # (a) all parameters to fresh distinct names
    t = tree
    k = 0
    for i, lam in enumerate(lams):
        for j in range(len(lam.args.args)):
            t2 = rename_param(t, i, j, f"zz{k}")
            k += 1
            if t2 is not None:
                t = t2
    out.append(("all-fresh", t))
    # (b) shadowing: an inner parameter takes the name of an enclosing parameter it does not use
    def enclosing(tree):
        res = []

        def go(n, stack):
            if isinstance(n, ast.Lambda):
                res.append((n, list(stack)))
                stack = stack + [a.arg for a in n.args.args]
            for c in ast.iter_child_nodes(n):
                go(c, stack)
        go(tree, [])
        return res
    enc = enclosing(tree)
    idx = {id(l): i for i, l in enumerate(lams)}
    for lam, outer in enc:
        for j in range(len(lam.args.args)):
            for o in dict.fromkeys(outer):
                t2 = rename_param(tree, idx[id(lam)], j, o)
                if t2 is not None:
                    out.append((f"shadow:{lam.args.args[j].arg}->{o}", t2))
    # (c) special names the code paths compare against
    names = SPECIAL_NAMES if rich else SPECIAL_NAMES[:6]
    for i, lam in enumerate(lams):
        for j in range(len(lam.args.args)):
            for nm in names:
                t2 = rename_param(tree, i, j, nm)
                if t2 is not None:
                    out.append((f"special:{lam.args.args[j].arg}->{nm}", t2))
    # (d) all parameters the same name where legal (maximal shadowing)
    t = tree
    for i, lam in enumerate(lams):
        for j in range(len(lam.args.args)):
            t2 = rename_param(t, i, j, "p")
            if t2 is not None:
                t = t2
    out.append(("all-p", t))
    return out


def qastle_roundtrip(tree):
    import qastle
    txt = qastle.python_ast_to_text_ast(copy.deepcopy(tree))
    return qastle.text_ast_to_python_ast(txt).body[0].value


def strip_metadata(tree):
    "returns (tree without MetaData calls, [metadata dict nodes])"
    mds = []

    class T(ast.NodeTransformer):
        def visit_Call(self, node):
            self.generic_visit(node)
            if isinstance(node.func, ast.Name) and node.func.id == "MetaData":
                mds.append(node.args[1])
                return node.args[0]
            if isinstance(node.func, ast.Attribute) and node.func.attr == "MetaData":
                mds.append(node.args[0])
                return node.func.value
            return node
    t = T().visit(copy.deepcopy(tree))
    return t, mds


def chain_positions(tree):
    "Call nodes of the outermost sequence chain (EventDataset and every Select/Where/SelectMany above it)"
    out = []
    n = tree
    while isinstance(n, ast.Call) and isinstance(n.func, ast.Name) and n.func.id in ("Select", "Where", "SelectMany", "EventDataset", "ResultTTree"):
        if n.func.id != "ResultTTree":
            out.append(n)
        if n.func.id == "EventDataset":
            break
        n = n.args[0]
    return out


def metadata_placements(tree):
    bare, mds = strip_metadata(tree)
    if not mds:
        return []
    out = []
    npos = len(chain_positions(bare))
    for k in range(npos):
        t = copy.deepcopy(bare)
        pos = chain_positions(t)[k]
        wrapped = copy.deepcopy(pos)
        for md in mds:
            wrapped = ast.Call(func=ast.Name(id="MetaData", ctx=ast.Load()), args=[wrapped, copy.deepcopy(md)], keywords=[])
        # replace pos by wrapped inside t
        if pos is t:
            t = wrapped
        else:
            class R(ast.NodeTransformer):
                def visit_Call(self, node):
                    if node is pos:
                        return wrapped
                    self.generic_visit(node)
                    return node
            t = R().visit(t)
        ast.fix_missing_locations(t)
        out.append((f"metadata@{k}", t))
    return out


# pairs (separate steps, pre-fused) written by hand; PRIM/SEC are replaced per backend
FUSION_PAIRS = [
    ("Select(Select(EventDataset('ds'), lambda e: e.PRIM('A')), lambda js: js.Select(lambda j: j.pt()))",
     "Select(EventDataset('ds'), lambda e: e.PRIM('A').Select(lambda j: j.pt()))"),
    ("Select(Select(EventDataset('ds'), lambda e: (e.PRIM('A'), e.SEC('B'))), lambda p: (p[0].Count(), p[1].Select(lambda t: t.pt())))",
     "Select(EventDataset('ds'), lambda e: (e.PRIM('A').Count(), e.SEC('B').Select(lambda t: t.pt())))"),
    ("Select(Where(Where(EventDataset('ds'), lambda e: e.PRIM('A').Count() > 1), lambda e: e.SEC('B').Count() > 0), lambda e: e.PRIM('A').Count())",
     "Select(Where(EventDataset('ds'), lambda e: e.PRIM('A').Count() > 1 and e.SEC('B').Count() > 0), lambda e: e.PRIM('A').Count())"),
    ("Select(EventDataset('ds'), lambda e: e.PRIM('A').Select(lambda j: j.pt()).Select(lambda p: p * 2))",
     "Select(EventDataset('ds'), lambda e: e.PRIM('A').Select(lambda j: j.pt() * 2))"),
    ("Select(EventDataset('ds'), lambda e: e.PRIM('A').Where(lambda j: j.pt() > 1).Where(lambda j: j.eta() < 2).Select(lambda j: j.pt()))",
     "Select(EventDataset('ds'), lambda e: e.PRIM('A').Where(lambda j: j.pt() > 1 and j.eta() < 2).Select(lambda j: j.pt()))"),
    ("Select(EventDataset('ds'), lambda e: e.PRIM('A').Select(lambda j: j.pt()).Where(lambda p: p > 1).Count())",
     "Select(EventDataset('ds'), lambda e: e.PRIM('A').Where(lambda j: j.pt() > 1).Select(lambda j: j.pt()).Count())"),
    ("Select(SelectMany(Select(EventDataset('ds'), lambda e: e.PRIM('A')), lambda js: js), lambda j: j.pt())",
     "Select(SelectMany(EventDataset('ds'), lambda e: e.PRIM('A')), lambda j: j.pt())"),
    ("Select(Select(EventDataset('ds'), lambda e: {'j': e.PRIM('A'), 't': e.SEC('B')}), lambda d: d.j.Count() + d.t.Count())",
     "Select(EventDataset('ds'), lambda e: e.PRIM('A').Count() + e.SEC('B').Count())"),
    ("Select(Select(EventDataset('ds'), lambda e: e.PRIM('A').Select(lambda j: (j.pt(), j.eta()))), lambda ps: ps.Select(lambda p: p[0] - p[1]))",
     "Select(EventDataset('ds'), lambda e: e.PRIM('A').Select(lambda j: j.pt() - j.eta()))"),
]

# metadata whose values are lists: written with tuples in a python AST they reach the translator as tuples, through qastle text as lists
MD_LISTY = {
    "atlas": [
        {"metadata_type": "add_cpp_function", "name": "userfn", "include_files": ["TVector2.h", "math.h"], "arguments": ["x", "y"],
         "code": ["double t = x - y;", "double result = t * 2;"], "result_name": "result", "return_type": "double"},
        {"metadata_type": "inject_code", "name": "blk2", "body_includes": ["one.h", "two.h"], "private_members": ["int m_a;", "int m_b;"], "link_libraries": ["libA", "libB"]},
        {"metadata_type": "add_job_script", "name": "s1", "script": ["a = 1", "b = 2"], "depends_on": []},
        {"metadata_type": "add_atlas_event_collection_info", "name": "MyJets", "include_files": ["my/Thing.h", "my/Other.h"], "container_type": "my::ThingContainer",
         "element_type": "my::Thing", "contains_collection": True, "link_libraries": ["myThingLib", "myOtherLib"]},
    ],
    "cms_aod": [
        {"metadata_type": "add_cpp_function", "name": "userfn", "include_files": ["TVector2.h", "math.h"], "arguments": ["x", "y"],
         "code": ["double t = x - y;", "double result = t * 2;"], "result_name": "result", "return_type": "double"},
        {"metadata_type": "add_cms_aod_event_collection_info", "name": "MyMuons", "include_files": ["my/Thing.h", "my/Other.h"], "container_type": "my::ThingContainer",
         "element_type": "my::Thing", "contains_collection": True, "element_pointer": False},
    ],
    "cms_miniaod": [
        {"metadata_type": "add_cpp_function", "name": "userfn", "include_files": ["TVector2.h", "math.h"], "arguments": ["x", "y"],
         "code": ["double t = x - y;", "double result = t * 2;"], "result_name": "result", "return_type": "double"},
        {"metadata_type": "add_cms_miniaod_event_collection_info", "name": "MyMuons", "include_files": ["my/Thing.h", "my/Other.h"], "container_type": "my::ThingContainer",
         "element_type": "my::Thing", "contains_collection": True, "element_pointer": False},
    ],
}


def lists_to_tuples(tree):
    "every list inside a MetaData dictionary literal written as a tuple"
    t = copy.deepcopy(tree)

    class R(ast.NodeTransformer):
        def __init__(self):
            self.in_md = 0

        def visit_Call(self, node):
            is_md = isinstance(node.func, ast.Name) and node.func.id == "MetaData" and len(node.args) == 2
            if is_md:
                node.args[0] = self.visit(node.args[0])
                self.in_md += 1
                node.args[1] = self.visit(node.args[1])
                self.in_md -= 1
                return node
            self.generic_visit(node)
            return node

        def visit_List(self, node):
            self.generic_visit(node)
            if self.in_md:
                return ast.copy_location(ast.Tuple(elts=node.elts, ctx=ast.Load()), node)
            return node
    t = R().visit(t)
    return ast.fix_missing_locations(t)


MD_INJECT = {"metadata_type": "inject_code", "name": "blk", "body_includes": ["extra.h"]}
MD_MTI = {"metadata_type": "add_method_type_info", "type_string": "CLS", "method_name": "pt", "return_type": "float"}


def base_queries(backend, tier):
    from ..tv import gen
    v = gen.VOCAB[backend]
    qs = [q.replace("PRIM", v["prim"]).replace("SEC", v["sec"]) for q in gen.HANDWRITTEN_GENERIC if "ResultTTree" not in q]
    qs += gen.HANDWRITTEN.get(backend, [])
    qs += [p.src for p in gen.c04_programs(backend, tier)[:: (6 if tier == "quick" else 2)]]
    qs += [
        "Select(EventDataset('ds'), lambda e: e.PRIM('A').Select(lambda j: e.SEC('B').Select(lambda t: e.PRIM('A').Where(lambda k: k.pt() > t.pt() + j.pt()).Count())))",
        "Select(EventDataset('ds'), lambda e: e.PRIM('A').Select(lambda j: j.pt()).Aggregate(0.0, lambda acc, x: acc + x))",
        "Select(EventDataset('ds'), lambda e: e.PRIM('A').Select(lambda j: (lambda q: q.pt() + q.eta())(j)))",
        # an outer parameter used AFTER an inner lambda that does not mention it (the inner one may legally take its name)
        "Select(EventDataset('ds'), lambda e: e.PRIM('A').Select(lambda j: e.SEC('B').Where(lambda t: t.pt() > 1.5).Count() + j.eta()))",
        "Select(EventDataset('ds'), lambda e: e.PRIM('A').Select(lambda j: e.SEC('B').Select(lambda t: t.pt()).Sum() * j.pt()))",
        "Select(EventDataset('ds'), lambda e: e.PRIM('A').Where(lambda j: e.SEC('B').Where(lambda t: t.pt() > 1.5).Count() > 0 and j.pt() > 1.5).Select(lambda j: j.eta()))",
        "Select(SelectMany(EventDataset('ds'), lambda e: e.PRIM('A')), lambda j: j.vals().Where(lambda v: v > 1).Count() + j.pt())",
        "Select(EventDataset('ds'), lambda e: e.PRIM('A').Select(lambda j: j.pt() if e.SEC('B').Where(lambda t: t.pt() > 1).Count() > 0 else j.eta()))",
        "Select(EventDataset('ds'), lambda e: e.PRIM('A').Select(lambda j: j.pt()).Sum() + e.SEC('B').Count())",
        "Select(EventDataset('ds'), lambda e: (e.PRIM('A').Select(lambda j: j.pt()), e.SEC('B').Select(lambda t: t.pt()), e.PRIM('A').Count()))",
        "Select(EventDataset('ds'), lambda e: e.PRIM('A').Select(lambda j: e.SEC('B').Select(lambda t: e.PRIM('A').Where(lambda k: k.pt() > t.pt()).Count() + t.eta()).Sum() + j.eta()))",
    ]
    # steps that func_adl fuses (Where after Where / SelectMany / Select) under an enclosing lambda whose parameter an inner one may shadow
    qs += [
        "Select(EventDataset('ds'), lambda e: e.SEC('B').Select(lambda t: e.PRIM('A').SelectMany(lambda j: j.vals()).Where(lambda v: v > t.pt()).Count()))",
        "Select(EventDataset('ds'), lambda e: e.PRIM('A').Where(lambda j: j.pt() > 1.5).Where(lambda k: e.SEC('B').Where(lambda t: t.pt() > 1).Count() > 0).Count())",
        "Select(EventDataset('ds'), lambda e: e.SEC('B').Select(lambda t: e.PRIM('A').Select(lambda j: j.pt()).Select(lambda p: p + t.pt()).Sum()))",
        "Select(EventDataset('ds'), lambda e: e.SEC('B').Select(lambda t: e.PRIM('A').Where(lambda j: j.pt() > 1.5).Where(lambda k: k.eta() > t.pt()).Count()))",
    ]
    if backend == "atlas":
        # injected (built-in) methods / functions called with the same arguments on DIFFERENT objects in nested lambdas: whatever the
        # parameters are called, each call is about its own receiver
        qs += [
            "Select(EventDataset('ds'), lambda e: e.PRIM('A').Where(lambda j: j.getAttributeFloat('emf') > 0.1).Select(lambda j: e.PRIM('B').Where(lambda k: k.getAttributeFloat('emf') > 0.5).Count()))",
            "Select(EventDataset('ds'), lambda e: e.PRIM('A').Select(lambda j: e.PRIM('B').Select(lambda k: k.getAttributeFloat('w') + j.getAttributeFloat('w')).Sum() + j.getAttributeFloat('w')))",
            "Select(EventDataset('ds'), lambda e: e.PRIM('A').Select(lambda j: j.getAttributeFloat('w') * e.SEC('B').Where(lambda t: t.getAttributeFloat('w') > 1.5).Count()))",
            "Select(EventDataset('ds'), lambda e: e.PRIM('A').Where(lambda j: j.getAttributeFloat('w') > 0.5).Select(lambda k: k.getAttributeFloat('w')))",
            "Select(EventDataset('ds'), lambda e: e.PRIM('A').Select(lambda j: e.SEC('B').Where(lambda t: DeltaR(t.eta(), t.phi(), 0.5, 0.5) < 1.5).Count() + DeltaR(j.eta(), j.phi(), 0.5, 0.5)))",
        ]
    qs = [q.replace("PRIM", v["prim"]).replace("SEC", v["sec"]) for q in qs]
    with_md = []
    multi_step = [x.replace("PRIM", v["prim"]).replace("SEC", v["sec"]) for x, _ in FUSION_PAIRS] + [x for x in qs if x.startswith(("Select(Select(", "Select(Where(", "Select(SelectMany("))]
    for q in list(dict.fromkeys(multi_step + qs[:: (5 if tier == "quick" else 2)])):
        for md in (MD_INJECT, dict(MD_MTI, type_string=v["prim_cls"])):
            with_md.append(q.replace("EventDataset('ds')", f"MetaData(EventDataset('ds'), {md!r})", 1))
    return qs, with_md


def outcome(src_or_tree, backend, fold_neg=False):
    from ..tv.gen import datamodel_for
    from ..tv.equiv import with_metadata
    from ..tv.translate import TranslationRaised, translate
    import logging
    logging.disable(logging.CRITICAL)
    tree = ast.parse(src_or_tree, mode="eval").body if isinstance(src_or_tree, str) else src_or_tree
    text = ast.unparse(tree)
    dm = datamodel_for(text, backend)
    q = with_metadata(text, dm)
    # the variant under test must reach the translator in ITS form (qastle trees are re-parsed from unparse text,
    # which preserves structure and names)
    try:
        pkg = translate(q, backend, fold_neg=fold_neg)      # fold_neg: negative literals reach the executor as ONE Constant node
    except TranslationRaised as e:
        return {"status": "raised", "exc": type(e.exc).__name__, "q": q, "dm": dm}
    return {"status": "ok", "files": pkg.files, "canon": canonical(pkg.files), "tree": pkg.treename, "q": q, "dm": dm}


def compare(a, b, backend, src):
    "-> (verdict, text): verdict in same | benign | differ | inconclusive"
    if a["status"] != b["status"]:
        return "differ", f"original {a['status']} ({a.get('exc', '')}) but variant {b['status']} ({b.get('exc', '')})"
    if a["status"] == "raised":
        return "same", "both refused"
    if a["canon"] == b["canon"]:
        return "same", "identical up to numbering"
    # `-5` written in the query text is the unary minus of 5 and is emitted (-(5)); the one-node constant -5 is emitted (-5):
    # the same value, spelled differently (listed finding) - anything else that differs is still compared below
    _sp = lambda t: re.sub(r"\(-\((\d[\w.+-]*?)\)\)", r"(-\1)", t)      # noqa: E731
    if {k: _sp(v) for k, v in a["canon"].items()} == {k: _sp(v) for k, v in b["canon"].items()}:
        return "benign", "negative-spelling: the packages differ only in (-(N)) versus (-N)"
    diff = [k for k in a["canon"] if a["canon"][k] != b["canon"].get(k)]
    cxx = {"query.cxx", "query.h", "Analyzer.cc"}
    if not set(diff) <= cxx:
        return "differ", f"files differ: {diff}"
    from .C07 import semantic_equal
    eq, why = semantic_equal(src, a["files"], b["files"], dm=a.get("dm"), backend=backend)
    if eq is True:
        # which lines differ?  The First() failure message (it embeds the query text, parameter names included) is a listed
        # finding; any other difference that renumbering does not explain is reported even though the rows are equal
        import difflib
        other = []
        for k in diff:
            for ln in difflib.unified_diff(a["canon"][k].splitlines(), b["canon"].get(k, "").splitlines(), lineterm="", n=0):
                if ln[:1] in "+-" and not ln.startswith(("+++", "---")) and "First() called on an empty sequence" not in ln:
                    other.append(ln.strip()[:160])
        if other:
            return "differ", f"package text differs beyond the numbering of generated names in {diff} (rows equal for all events): {other[:4]}"
        return "benign", f"first-message: text differs in {diff} only in the First() failure message; {why}"
    if eq is False:
        return "differ", f"{diff}: {why}"
    return "inconclusive", why


def work(item):
    backend, kind, label, orig_src, variant = item
    a = outcome(orig_src, backend)
    if kind == "qastle":
        try:
            vt = qastle_roundtrip(ast.parse(orig_src, mode="eval").body)
        except Exception as e:  # noqa: BLE001
            return {"verdict": "inconclusive", "text": f"qastle cannot express it: {type(e).__name__}: {e}", "item": item[:4]}
        b = outcome(vt, backend)
        vsrc = ast.unparse(vt)
    else:
        b = outcome(variant, backend, fold_neg=(label == "negative-constant-as-one-node"))
        vsrc = ast.unparse(variant) if not isinstance(variant, str) else variant
    verdict, text = compare(a, b, backend, a["q"] if a["status"] == "ok" else orig_src)
    return {"verdict": verdict, "text": text, "item": item[:4], "variant_src": vsrc[:600], "a_status": a["status"]}


def main():
    a = parse_args("C08")
    rep = Report("C08", a.tier, a.seed, "translation_validation")
    from ..tv import gen
    from ..tv.translate import BACKENDS
    items = []
    for b in (BACKENDS if a.tier == "thorough" else ("atlas", "cms_miniaod")):
        qs, with_md = base_queries(b, a.tier)
        v = gen.VOCAB[b]
        for q in qs:
            tree = ast.parse(q, mode="eval").body
            items.append((b, "qastle", "round-trip", q, None))
            for label, t in renamings(tree, a.tier == "thorough"):
                items.append((b, "rename", label, q, t))
        for q in with_md:
            tree = ast.parse(q, mode="eval").body
            for label, t in metadata_placements(tree):
                items.append((b, "metadata", label, q, t))
            items.append((b, "qastle", "round-trip", q, None))
        # a lambda parameter spelled like a namespace the query's own metadata declares (define_enum): parameters hide namespaces
        ns_root = "xAOD" if b == "atlas" else "reco"
        md_enum = {"metadata_type": "define_enum", "namespace": f"{ns_root}.{'Jet' if b == 'atlas' else 'Muon'}", "name": "Kind", "values": ["One", "Two"]}
        for body in (f"lambda e: e.{v['prim']}('A').Select(lambda j: j.pt())",
                     f"lambda e: e.{v['prim']}('A').Where(lambda j: j.pt() > 1.5).Select(lambda j: j.eta() + j.pt())",
                     f"lambda e: e.{v['prim']}('A').Select(lambda j: e.{v['sec']}('B').Where(lambda t: t.pt() > j.pt()).Count())"):
            q = f"Select(MetaData(EventDataset('ds'), {md_enum!r}), {body})"
            tree = ast.parse(q, mode="eval").body
            for i, lam in enumerate(lambdas_of(tree)):
                for jx in range(len(lam.args.args)):
                    for nm in (ns_root, "Kind"):
                        t2 = rename_param(tree, i, jx, nm)
                        if t2 is not None:
                            items.append((b, "rename", f"namespace-name:{lam.args.args[jx].arg}->{nm}", q, t2))
        # chained comparisons: qastle text carries them as nested two-operand comparisons (known finding on the AST route)
        for body in (f"lambda e: e.{v['prim']}('A').Where(lambda j: 1.5 <= j.pt() < 3.5).Count()",
                     f"lambda e: e.{v['prim']}('A').Select(lambda j: 0.5 < j.eta() <= j.pt())",
                     f"lambda e: e.{v['prim']}('A').Where(lambda j: 1 < j.nTrk() < 3).Select(lambda j: j.pt())"):
            items.append((b, "qastle", "round-trip", f"Select(EventDataset('ds'), {body})", None))
        # wire format: list-valued metadata written as tuples in the python AST (qastle text has only lists)
        for md in MD_LISTY[b]:
            if md["metadata_type"] == "add_cpp_function":
                body = f"lambda e: e.{v['prim']}('A').Select(lambda j: userfn(j.pt(), j.eta()))"
            elif "event_collection_info" in md["metadata_type"]:
                body = f"lambda e: e.{md['name']}('A').Count()"
            else:
                body = f"lambda e: e.{v['prim']}('A').Count()"
            for q in (f"Select(MetaData(EventDataset('ds'), {md!r}), {body})",
                      f"Select(MetaData(MetaData(EventDataset('ds'), {MD_LISTY[b][0]!r}), {md!r}), {body})"):
                tree = ast.parse(q, mode="eval").body
                items.append((b, "wire", "metadata-lists-as-tuples", q, lists_to_tuples(tree)))
                items.append((b, "qastle", "round-trip", q, None))
        if b == "atlas":
            # the ORDER in which several MetaData calls are attached (which follows from where along the chain each one sits):
            # job-script blocks that their declared dependencies order completely give the same job options in every order
            import itertools as _it
            JB = lambda n, lines, deps: {"metadata_type": "add_job_script", "name": n, "script": lines, "depends_on": deps}      # noqa: E731
            ordered = [JB("registry", ["tools = []"], []), JB("calibration", ["tools.append('calib')"], ["registry"]),
                       JB("systematics", ["job_tools = ','.join(tools)"], ["registry"]), JB("systematics", ["job_tools = ','.join(tools)"], ["calibration"])]
            independent = [JB("alpha", ["alpha = 1"], []), JB("beta", ["beta = 2"], [])]

            def with_mds(mds, split=False):
                src = "EventDataset('ds')"
                inner = mds[:2] if split else mds
                for m in inner:
                    src = f"MetaData({src}, {m!r})"
                qq = f"Select({src}, lambda e: e.{v['prim']}('A').Select(lambda j: j.pt()))"
                if split:
                    qq = f"Where({qq.replace('Select(', 'Select(', 1)}, lambda js: js.Count() > 0)"
                    for m in mds[2:]:
                        qq = f"MetaData({qq}, {m!r})"
                    qq = f"Select({qq}, lambda js: js.Count())"
                return qq
            base_q = with_mds(ordered)
            for perm in list(_it.permutations(range(4)))[1:: (3 if a.tier == "quick" else 1)]:
                items.append((b, "metadata", "order:" + "".join(map(str, perm)), base_q, ast.parse(with_mds([ordered[i] for i in perm]), mode="eval").body))
            base_s = with_mds(ordered, split=True)
            for perm in ((2, 3, 0, 1), (3, 1, 0, 2), (1, 0, 3, 2)):
                items.append((b, "metadata", "order-split:" + "".join(map(str, perm)), base_s, ast.parse(with_mds([ordered[i] for i in perm], split=True), mode="eval").body))
            items.append((b, "metadata", "order-independent:10", with_mds(independent), ast.parse(with_mds(independent[::-1]), mode="eval").body))
        # wire format of negative constants: a captured python value -1 reaches the executor as ONE Constant(-1) node in the
        # python AST, and as "-1" = USub(Constant(1)) after the trip through qastle text
        from ..tv.translate import _FoldNegative
        for body in (f"lambda e: e.{v['prim']}('A').Select(lambda j: j.pt() - -5)",
                     f"lambda e: e.{v['prim']}('A').Select(lambda j: j.vals()[-1])",
                     f"lambda e: e.{v['prim']}('A')[-1].pt()",
                     f"lambda e: e.{v['prim']}('A').Where(lambda j: j.eta() > -1.5).Select(lambda j: j.vals()[-2] * -2)",
                     f"lambda e: e.{v['prim']}('A').Select(lambda j: j.vals().Count() > 1 and j.vals()[-1] > -0.5)"):
            q = f"Select(EventDataset('ds'), {body})"
            tree = ast.parse(q, mode="eval").body
            folded = ast.fix_missing_locations(_FoldNegative().visit(copy.deepcopy(tree)))
            items.append((b, "wire", "negative-constant-as-one-node", q, folded))
        for sep, fused in FUSION_PAIRS:
            sep, fused = [x.replace("PRIM", v["prim"]).replace("SEC", v["sec"]) for x in (sep, fused)]
            items.append((b, "fusion", "separate-vs-fused", fused, sep))
    if a.limit:
        items = items[: a.limit]
    results = pmap(work, items, a.jobs)
    from ..common import load_known_findings
    kfs = [f for f in load_known_findings("C08") if f.get("status") == "known" and f.get("label_regex")]
    fm = next((f for f in load_known_findings("C08") if f["id"] == "KF-first-message-embeds-query-text" and f.get("status") == "known"), None)
    ns = next((f for f in load_known_findings("C08") if f["id"] == "KF-negative-literal-spelling-wire-format" and f.get("status") == "known"), None)
    counts = {}
    samples = []
    benign = []
    nontrivial = 0
    for it, r in zip(items, results):
        rep.obligations += 1
        if "__error__" in r:
            rep.inconc(f"{it[0]} {it[1]} {it[2]} {it[3][:120]}", "worker crashed: " + r["__error__"])
            continue
        counts[(it[1], r["verdict"])] = counts.get((it[1], r["verdict"]), 0) + 1
        tag = f"[{it[0]}] {it[1]}:{it[2]} of {it[3][:200]}"
        if r["verdict"] in ("same", "benign"):
            rep.discharged += 1
            if r.get("a_status") == "ok":
                nontrivial += 1
            if r["verdict"] == "benign":
                benign.append((tag, r["text"]))
                if fm is not None and r["text"].startswith("first-message"):
                    rep.discharged -= 1
                    rep.known(fm["id"], fm["what"][:200] + f" | observed: {tag[:160]}")
                if ns is not None and r["text"].startswith("negative-spelling"):
                    rep.discharged -= 1
                    rep.known(ns["id"], ns["what"][:200] + f" | observed: {tag[:160]}")
        elif r["verdict"] == "differ" and any(re.fullmatch(f["label_regex"], it[2]) and f["text_regex"] in r["text"] and (not f.get("src_regex") or re.search(f["src_regex"], it[3])) for f in kfs):
            f = next(f for f in kfs if re.fullmatch(f["label_regex"], it[2]) and f["text_regex"] in r["text"] and (not f.get("src_regex") or re.search(f["src_regex"], it[3])))
            rep.known(f["id"], f["what"][:200] + f" | observed: {tag[:160]}")
        elif r["verdict"] == "differ":
            d = REPLAYS / "C08" / re.sub(r"\W+", "_", f"{it[0]}_{it[1]}_{it[2]}_{abs(hash(it[3])) % 10**8}")[:120]
            d.mkdir(parents=True, exist_ok=True)
            (d / "finding.json").write_text(json.dumps({"backend": it[0], "kind": it[1], "label": it[2], "original": it[3], "variant": r.get("variant_src"), "text": r["text"]}, indent=1))
            rep.violation(f"{tag}: {r['text']} || variant: {r.get('variant_src', '')[:200]}", d)
        else:
            rep.inconc(tag, r["text"])
        if len(samples) < 10 and r["verdict"] != "inconclusive" and it[1] != "qastle":
            samples.append({"backend": it[0], "kind": it[1], "label": it[2], "original": it[3][:160], "variant": r.get("variant_src", "")[:160], "verdict": r["verdict"]})
    cov = {
        "programs": len(items), "disagreements_checked": len(benign) + len(rep.violations),
        "evaluations": len(items), "distinct_nontrivial": nontrivial,
        "rule": "one case = (query, variant): qastle round trip, capture-avoiding alpha-renaming (all-fresh, shadowing an unused enclosing parameter, special names, maximal shadowing), "
                "every position of the MetaData calls along the outer chain, hand-written separate-vs-fused pairs; non-trivial = both sides accepted",
        "samples": samples or [{"note": "none"}],
        "by_kind_and_verdict": {f"{k[0]}:{k[1]}": v for k, v in sorted(counts.items())},
        "benign_textual_differences": benign[:15],
        "bounds": {"N": 2},
        "explanation": "packages compared after canonical renaming of generated names; a difference confined to the C++ files is decided by engine A (z3: schema, rows and faults of the "
                       "two packages equal for all events up to N, ATLAS templates), so 'the same' is claimed at the level of observable behaviour; accept/reject must agree",
    }
    sys.exit(rep.finish(cov, [
        "variants are enumerated (symbolic parameter names do not terminate in CrossHair), the solver quantifies over events when texts differ",
        "a textual difference that the numbering of generated names does not explain is reported even when engine A proves the two packages equivalent; "
        "the one exception is the First() failure message, which embeds the query text (known finding KF-first-message-embeds-query-text)"]))


if __name__ == "__main__":
    main()
