"""C09 - unsupported or malformed queries are refused, never half-translated."""
import sys

from ..common import parse_args
from . import chcheck
from .tvcheck import TVCheck, cleanup_scratch


def main():
    a = parse_args("C09")
    rep, cov, assumptions = chcheck.run(
        "C09", a.tier, a.seed, [("h_c09", 120, None), ("h_c06", 120, lambda n: n.startswith(("extra_key", "element_type_consistency", "other_backend")))], jobs=a.jobs,
        functions=["func_adl_xAOD.common.meta_data.process_metadata", "whole translator on grafted queries (observed: raise vs return)"],
        explanation="solver-decided (CrossHair on the real process_metadata): every metadata_type string outside the known set raises (<=30 chars), a missing "
                    "metadata_type key raises for every key string, unknown keys of collection declarations raise (list-backed Mapping keeps the key symbolic), "
                    "an unknown entry anywhere in the list refuses the whole list; inject_code field names are enumerated (dict copy realises the key). "
                    "Observed per enumerated program (NOT a solver claim - there is no input quantifier): every unsupported construct (operators outside the tables, "
                    "chained/identity/membership comparisons, unimplemented Aggregate forms, slicing, arithmetic with a sequence/object/string/tuple/dict operand for every "
                    "operator and side, value used as sequence, raw objects, templated getAttribute, wrong arity/call style, keyword arguments, unknown functions, malformed "
                    "metadata, label/column mismatch) grafted into every expression position of the host queries must raise")
    from ..tv import gen
    from ..tv.translate import BACKENDS
    tv = TVCheck("C09", a.tier, a.seed, N=2, timeout_ms=10000, want=("twin",), bad_statuses=(), raised_is_violation=False)
    progs = []
    for b in BACKENDS:
        progs += gen.c09_programs(b, a.tier)
    _, tvcov, _ = tv.run(progs, a.jobs, {}, rep=rep)
    cleanup_scratch()
    cov["graft_programs"] = {"programs": tvcov["programs"], "statuses": tvcov["program_statuses"], "decided_by": "observation (raise vs return), not by the solver"}
    sys.exit(rep.finish(cov, assumptions + [
        "constructs rewritten away by the func_adl dependency before this backend sees them (extra positional arguments of Select/First) are outside the claim",
        "'nothing silently dropped' is decided as: a grafted query must not return a package at all"]))


if __name__ == "__main__":
    main()
