"""C10 - declared method, collection-return and enum types are honoured exactly."""
import logging
import sys

from ..common import parse_args
from . import chcheck
from .tvcheck import ENGINE_A_ASSUMPTIONS, TVCheck, cleanup_scratch


def fallback_warning_observed():
    "undeclared method -> double column and a logged warning (observation, not a solver claim)"
    from ..tv.translate import translate
    import func_adl_xAOD.common.ast_to_cpp_translator as tr
    records = []

    class H(logging.Handler):
        def emit(self, rec):
            records.append(rec.getMessage())
    lg = logging.getLogger(tr.__name__)
    h = H()
    lg.addHandler(h)
    old = lg.level
    lg.setLevel(logging.WARNING)
    try:
        pkg = translate("Select(EventDataset('ds'), lambda e: e.Jets('A').Select(lambda j: j.undeclaredThing()))", "atlas", quiet=False)
    finally:
        lg.removeHandler(h)
        lg.setLevel(old)
        logging.disable(logging.CRITICAL)
    warned = [r for r in records if "undeclaredThing" in r and "double" in r]
    return len(warned) >= 1 and "std::vector<double>" in pkg.files["query.h"], records[:3]


def main():
    a = parse_args("C10")
    mods = [("h_c10", 200, None), ("h_c10_p", 120, None)]
    rep, cov, assumptions = chcheck.run(
        "C10", a.tier, a.seed, mods, jobs=a.jobs,
        functions=["func_adl_xAOD.common.cpp_types.parse_type / terminal / collection / define_enum / ENumInfo.value_as_cpp / method registry",
                   "func_adl_xAOD.common.cpp_representation.base_type_member_access / dereference_var",
                   "func_adl_xAOD.common.meta_data.process_metadata (add_method_type_info branch)",
                   "rendered packages of the declaration-space programs (engine A)"],
        explanation="CrossHair on the real helper functions: parse_type equals an independent index-based reference for all printable strings <=4 chars "
                    "(and 'const '+<=3), member-access synthesis for all pointer depths x deref counts <=3 yields exactly p+d-1 '(*..)' wrappers and '->' (or '.'), "
                    "dereference_var, tree_type, enum value rendering, metadata->registry; engine A: for every declaration of the enumerated space "
                    "(pointer depth 0..2 x deref_count 0..2 x value/object/collection by value/pointer x element kinds x chains <=3, enums) the emitted "
                    "code type-checks against model classes built from the very same declarations and rows equal the query's for all events")
    from ..tv import gen
    from ..tv.translate import BACKENDS
    tv = TVCheck("C10", a.tier, a.seed, N=2 if a.tier == "quick" else 3, timeout_ms=10000 if a.tier == "quick" else 60000,
                 want=("rows", "nofault", "schema", "init", "twin"), bad_statuses=("illformed", "illtyped", "frontend"), raised_is_violation=True)
    progs = []
    for b in (BACKENDS if a.tier == "thorough" else ("atlas", "cms_aod")):
        progs += gen.c10_programs(b)
    _, tvcov, _ = tv.run(progs, a.jobs, {}, rep=rep)
    cleanup_scratch()
    cov["declaration_space_programs"] = {"programs": tvcov["programs"], "statuses": tvcov["program_statuses"], "bounds": tvcov["bounds"]}
    ok, recs = fallback_warning_observed()
    rep.obligations += 1
    if ok:
        rep.discharged += 1
    else:
        from pathlib import Path
        d = chcheck.REPLAYS / "C10" / "fallback"
        d.mkdir(parents=True, exist_ok=True)
        (d / "finding.json").write_text(str(recs))
        rep.violation(f"undeclared method: expected a double column and a logged warning, got log records {recs}", d)
    cov["observed_not_solver"] = ["undeclared-method fallback: double column and one warning logged"]
    sys.exit(rep.finish(cov, assumptions + ENGINE_A_ASSUMPTIONS[:3] + [
        "deref_count semantics: a class whose methods are declared with deref_count d behaves as a d-level smart pointer (operator* / operator->); replay stubs do not exist for such classes (type errors are reported from the symbolic executor's type environment)",
        "tree_type columns are covered by the CrossHair condition on terminal.tree_type only"]))


if __name__ == "__main__":
    main()
