"""C11 - injected C++ functions are applied hygienically at every call site."""
import sys

from ..common import parse_args
from . import chcheck
from .tvcheck import ENGINE_A_ASSUMPTIONS, TVCheck, cleanup_scratch


def main():
    a = parse_args("C11")
    only = None if a.tier == "thorough" else (lambda n: not n.endswith("_len2"))
    rep, cov, assumptions = chcheck.run(
        "C11", a.tier, a.seed, [("h_c11", 300 if a.tier == "quick" else 1500, only)], jobs=a.jobs,
        functions=["func_adl_xAOD.common.meta_data.process_metadata (add_cpp_function) -> cpp_ast.build_CPPCodeValue -> cpp_ast.process_ast_node (real pipeline, re.sub shim)",
                   "rendered packages of the call-site programs (engine A)"],
        explanation="substitution kernel (CrossHair through the real pipeline): for a table of hygiene-sensitive (formal names, code lines) shapes - formals inside longer words, "
                    "one formal a prefix of another, order of formals vs occurrence - and SYMBOLIC actual argument texts (integers rendered by str(), strings of any characters) the "
                    "emitted block equals an independent token-based simultaneous whole-word substitution, sits in its own block and delivers the result in a fresh variable; "
                    "call sites (engine A): user functions and methods, collection-returning functions, built-in DeltaR, nested / repeated / guarded / aggregated calls compute the "
                    "function's meaning for all events, result variable typed as declared, includes present; wrong arity or call style must raise")
    from ..tv import gen
    from ..tv.translate import BACKENDS
    tv = TVCheck("C11", a.tier, a.seed, N=2 if a.tier == "quick" else 3, timeout_ms=10000 if a.tier == "quick" else 60000,
                 want=("rows", "nofault", "schema", "init", "complete", "twin"), bad_statuses=("illformed", "illtyped", "frontend"), raised_is_violation=True)
    progs = []
    for b in BACKENDS:
        progs += gen.c11_programs(b)
    _, tvcov, _ = tv.run(progs, a.jobs, {}, rep=rep)
    cleanup_scratch()
    cov["call_site_programs"] = {"programs": tvcov["programs"], "statuses": tvcov["program_statuses"], "bounds": tvcov["bounds"]}
    sys.exit(rep.finish(cov, assumptions + ENGINE_A_ASSUMPTIONS[:3] + [
        "formal parameter names and code lines are enumerated from a table (symbolic names/lines cannot be kept symbolic through re.compile); the actual argument texts are symbolic",
        "the cvc5 string encoding of the former sequential re.sub loop planned in DESIGN was dropped: the loop no longer exists after fix 4609137 (single alternation regex with a callback)",
        "user C++ is modelled by the reference lambda attached to each specification; code outside the C++ subset would be opaque"]))


if __name__ == "__main__":
    main()
