"""C12 - every documented math function is accepted and computes its namesake."""
import os
import re
import sys

from ..common import parse_args
from ..tv import gen, mathfn
from ..tv.translate import BACKENDS
from .tvcheck import ENGINE_A_ASSUMPTIONS, TVCheck, cleanup_scratch


def readme_functions():
    txt = open(os.path.join(os.environ.get("VERIF_REPO", "/repo"), "README.md")).read()
    m = re.search(r"Math functions are pulled from.*?:\s*(.*?)\.\n", txt, re.S)
    return re.findall(r"`(\w+)`", m.group(1)) if m else []


def main():
    a = parse_args("C12")
    N = 1 if a.tier == "quick" else 2
    chk = TVCheck("C12", a.tier, a.seed, N=N, timeout_ms=10000 if a.tier == "quick" else 60000,
                  want=("rows", "nofault", "schema", "complete", "twin"), bad_statuses=("illformed", "illtyped", "frontend"),
                  raised_is_violation=True)
    live = readme_functions()
    programs, meta = [], {"families": {}}
    backends = ("atlas",) if a.tier == "quick" else BACKENDS
    for b in backends:
        ps = gen.c12_programs(b, names=live or None)
        meta["families"][b] = dict(programs=len(ps))
        programs += ps
    if a.limit:
        programs = programs[: a.limit]
    rep, cov, results = chk.run(programs, a.jobs, meta)
    if sorted(live) != sorted(mathfn.DOCUMENTED):
        rep.inconc("README function list", f"live README list differs from the frozen copy: +{sorted(set(live) - set(mathfn.DOCUMENTED))} -{sorted(set(mathfn.DOCUMENTED) - set(live))} (live list was used)")
    cov["exhaustive"] = True
    cov["table_rows"] = len(live or mathfn.DOCUMENTED)
    cov["rows_without_numeric_call_form"] = sorted(mathfn.NON_NUMERIC_SIGNATURE)
    cov["interpreted_functions"] = sorted(mathfn.INTERPRETED)
    cov["explanation"] = ("every function name of the README list x {standalone, in arithmetic x2, as comparison operand, with an int argument}: "
                          "z3 decides emitted call == reference meaning of the documented name for all argument values; rounding/remainder/min/max/abs family "
                          "interpreted exactly, all others distinct uninterpreted functions named after the C function (ln==log, abs==fabs, nearbyint==rint, scalbn==ldexp)")
    cleanup_scratch()
    sys.exit(rep.finish(cov, ENGINE_A_ASSUMPTIONS + [
        "numerical accuracy of libm is trusted: the claim is 'calls its namesake with the arguments in order and uses the result correctly'",
        "remquo (int* out-parameter) and nan (const char* argument) have no call form with numeric query arguments: their programs are reported under KF-remquo-nan-signature",
        "compiler options of the generated build (e.g. -Ofast / -ffast-math in package_CMakeLists.txt) that change floating-point results without changing the emitted expressions are outside the encoding",
        "sign of zero and NaN/inf are outside the real-number abstraction (copysign(x, 0) treated as +0)"]))


if __name__ == "__main__":
    main()
