"""C13 - arithmetic follows Python numerics on the declared value types."""
import sys

from ..common import parse_args
from ..tv import gen
from ..tv.translate import BACKENDS
from .tvcheck import ENGINE_A_ASSUMPTIONS, TVCheck, cleanup_scratch


def main():
    a = parse_args("C13")
    N = 2 if a.tier == "quick" else 3
    chk = TVCheck("C13", a.tier, a.seed, N=N, timeout_ms=10000 if a.tier == "quick" else 60000,
                  want=("rows", "nofault", "schema", "twin"), bad_statuses=("illformed", "illtyped", "frontend"),
                  raised_is_violation=True)
    programs, meta = [], {"families": {}}
    backends = ("atlas",) if a.tier == "quick" else BACKENDS
    for b in backends:
        ps = gen.c13_programs(b, a.tier)
        meta["families"][b] = dict(programs=len(ps))
        programs += ps
    if a.limit:
        programs = programs[: a.limit]
    rep, cov, results = chk.run(programs, a.jobs, meta)
    cov["exhaustive"] = True
    cov["explanation"] = ("exhaustive table {+,-,*,/,%,**} x operand kinds (int literal, int count, int method, float, double, bool), unary {+,-,not}, "
                          "six comparisons, conditional x arm kinds, Sum/Min/Max/Aggregate(seed) x seed kind x element kind: value AND column kind "
                          "must equal Python's, for all operand values within the magnitude bound")
    cleanup_scratch()
    sys.exit(rep.finish(cov, ENGINE_A_ASSUMPTIONS))


if __name__ == "__main__":
    main()
