"""C15 - job-script blocks are emitted once each in dependency order."""
import sys

from ..common import parse_args
from . import chcheck


def insertion_obligation(rep):
    """Insertion point in the ATLAS job options: the Python code jinja2 generates for the real ATestRun_eljob.py
    (Environment options and context captured from a real executor run) as a z3 string term over symbolic script
    lines must equal the template source with the lines verbatim, between job creation and algorithm creation."""
    import z3
    from ..strk import jinja_smt as js
    from pathlib import Path
    tag = "atlas:ATestRun_eljob.py:job_option_additions"
    rep.obligations += 1
    try:
        cap = js.capture("atlas", [{"metadata_type": "add_job_script", "name": "b0", "script": ["S3NT1NEL_job_0", "S3NT1NEL_job_1"], "depends_on": []}])
        ctx = cap["contexts"]["ATestRun_eljob.py"]
        if ctx.get("job_option_additions") != ["S3NT1NEL_job_0", "S3NT1NEL_job_1"]:
            d = chcheck.REPLAYS / "C15" / "insertion"
            d.mkdir(parents=True, exist_ok=True)
            (d / "finding.json").write_text(str(ctx.get("job_option_additions")))
            rep.violation(f"{tag}: script lines do not reach the template variable: {ctx.get('job_option_additions')}", d)
            return
        src = (Path(cap["template_dir"]) / "ATestRun_eljob.py").read_text()
        gen = js.generated_structure(src, cap["env_kwargs"])
        exp = js.source_structure(src)
        idx = next(i for i, p in enumerate(exp) if p[0] == "loop" and p[1] == "job_option_additions")
        pre = "".join(p[1] for p in exp[:idx] if p[0] == "const")
        post = "".join(p[1] for p in exp[idx + 1:] if p[0] == "const")
        if not ("job = ROOT.EL.Job()" in pre and "createAlgorithm" in post):
            d = chcheck.REPLAYS / "C15" / "insertion"
            d.mkdir(parents=True, exist_ok=True)
            (d / "finding.json").write_text("region")
            rep.violation(f"{tag}: the script is not inserted between job creation and algorithm creation", d)
            return
        L = [z3.String(f"l{i}") for i in range(3)]
        zctx = {"job_option_additions": L}
        side, side2 = js.Side(), js.Side()
        s = z3.Solver()
        s.set("timeout", 30000)
        for ln in L:
            s.add(z3.Length(ln) <= 4)
        got, want = js.render_term(gen, zctx, side), js.render_term(exp, zctx, side2)
        s.add(*side.cons)
        s.add(got != want)
        r = s.check()
        if r == z3.unsat:
            env = js.jinja2.Environment(**cap["env_kwargs"])
            for sp in (["a = '{{x}}'", "b = '{% y %}' # <&>"], ["", "x"]):
                if env.from_string(src).render({"job_option_additions": sp}) != js.render_concrete(gen, {"job_option_additions": sp}):
                    rep.harness(f"{tag}: translation of jinja2's generated code disagrees with the real render")
                    return
            rep.discharged += 1
        elif r == z3.sat:
            m = s.model()
            vals = [m.eval(x, model_completion=True).as_string() for x in L]
            env = js.jinja2.Environment(**cap["env_kwargs"])
            real = env.from_string(src).render({"job_option_additions": vals})
            if real != js.render_concrete(exp, {"job_option_additions": vals}):
                d = chcheck.REPLAYS / "C15" / "insertion"
                d.mkdir(parents=True, exist_ok=True)
                (d / "finding.json").write_text(str(vals))
                rep.violation(f"{tag}: script lines {vals!r} are not inserted verbatim, once, in order", d)
            else:
                rep.inconc(tag, "solver model does not reproduce with the real jinja2")
        else:
            rep.inconc(tag, "solver unknown")
    except js.Inconclusive as e:
        rep.inconc(tag, f"template outside the translator's subset: {e}")


def executor_scenarios(rep):
    """Whole-executor plumbing for job scripts (real process_metadata + executor + template context): merging of repeated
    blocks, empty-script blocks that take part in dependencies, and the three error classes.  Scenarios, not solver claims."""
    from ..strk import jinja_smt as js

    def blk(name, lines, deps):
        return {"metadata_type": "add_job_script", "name": name, "script": list(lines), "depends_on": list(deps)}

    def run(mds):
        try:
            cap = js.capture("atlas", mds)
            return ("ok", cap["contexts"]["ATestRun_eljob.py"].get("job_option_additions"))
        except Exception as e:  # noqa: BLE001
            inner = getattr(e, "exc", e)
            return ("raised", type(inner).__name__ + ": " + str(inner)[:120])
    L = lambda n: [f"{n}_line1", f"{n}_line2"]          # noqa: E731
    cases = [
        # same name, same script, different dependencies: merged with the union of the dependencies
        ("merge-union", [blk("calib", L("calib"), ["sys"]), blk("sys", L("sys"), []), blk("pile", L("pile"), []), blk("calib", L("calib"), ["pile"]), blk("sel", L("sel"), ["calib"])],
         lambda r: r[0] == "ok" and sorted(r[1]) == sorted(L("calib") + L("sys") + L("pile") + L("sel")) and r[1].index("calib_line1") > max(r[1].index("sys_line2"), r[1].index("pile_line2"))
         and r[1].index("sel_line1") > r[1].index("calib_line2")),
        ("identical-twice", [blk("a", L("a"), []), blk("a", L("a"), [])], lambda r: r == ("ok", L("a"))),
        # an empty-script block is still a node of the dependency graph
        ("empty-grouping", [blk("grp", [], ["sys", "pile"]), blk("sys", L("sys"), []), blk("pile", L("pile"), []), blk("sel", L("sel"), ["grp"])],
         lambda r: r[0] == "ok" and sorted(r[1]) == sorted(L("sys") + L("pile") + L("sel")) and r[1].index("sel_line1") > max(r[1].index("sys_line2"), r[1].index("pile_line2"))),
        ("empty-missing-dep", [blk("grp", [], ["never_sent"]), blk("sel", L("sel"), [])], lambda r: r[0] == "raised" and "ValueError" in r[1]),
        ("empty-cycle", [blk("g1", [], ["g2"]), blk("g2", [], ["g1"])], lambda r: r[0] == "raised" and "ValueError" in r[1]),
        ("conflict", [blk("a", ["x = 1"], []), blk("a", ["x = 2"], [])], lambda r: r[0] == "raised" and "ValueError" in r[1]),
        ("self-dependency", [blk("a", L("a"), ["a"])], lambda r: r[0] == "raised" and "ValueError" in r[1]),
        ("chain-reversed-input", [blk("c", L("c"), ["b"]), blk("b", L("b"), ["a"]), blk("a", L("a"), [])], lambda r: r == ("ok", L("a") + L("b") + L("c"))),
    ]
    # a block sent several times with identical script and DIFFERENT dependency lists, through the real metadata path, in every
    # order of arrival: the dependencies of every occurrence count (union), and the error classes stay errors
    import itertools
    union_blocks = [blk("calib", L("calib"), ["sys"]), blk("sys", L("sys"), []), blk("pile", L("pile"), []), blk("calib", L("calib"), ["pile"]), blk("calib", L("calib"), [])]

    def union_ok(r):
        return r[0] == "ok" and sorted(r[1]) == sorted(L("calib") + L("sys") + L("pile")) and r[1].index("calib_line1") > max(r[1].index("sys_line2"), r[1].index("pile_line2")) \
            and all(r[1][r[1].index(n + "_line1") + 1] == n + "_line2" for n in ("calib", "sys", "pile"))
    perms = list(itertools.permutations(range(len(union_blocks))))
    for k, perm in enumerate(perms[::5]):
        cases.append((f"union-order-{''.join(map(str, perm))}", [union_blocks[i] for i in perm], union_ok))
    for k, order in enumerate(([0, 1], [1, 0])):
        two = [blk("a", L("a"), []), blk("a", L("a"), ["never_sent"])]
        cases.append((f"repeat-with-missing-dep-{k}", [two[i] for i in order], lambda r: r[0] == "raised" and "ValueError" in r[1]))
        cyc = [blk("a", L("a"), []), blk("b", L("b"), ["a"]), blk("a", L("a"), ["b"])]
        cases.append((f"repeat-closing-cycle-{k}", cyc if k == 0 else cyc[::-1], lambda r: r[0] == "raised" and "ValueError" in r[1]))
    for name, mds, ok in cases:
        rep.obligations += 1
        r = run(mds)
        if ok(r):
            rep.discharged += 1
        else:
            d = chcheck.REPLAYS / "C15" / f"executor_{name}"
            d.mkdir(parents=True, exist_ok=True)
            import json
            (d / "finding.json").write_text(json.dumps({"scenario": name, "metadata": mds, "outcome": r}, indent=1, default=str))
            rep.violation(f"atlas executor, job scripts, scenario {name}: outcome {r}", d)


def main():
    a = parse_args("C15")
    mods = [("h_c15", 60, None), ("h_c15_2", 120, None), ("h_c15_4", 200, (lambda n: n.startswith("q4")) if a.tier == "quick" else None)]
    if a.tier == "thorough":
        mods.append(("h_c15_3", 200, None))
    rep, cov, assumptions = chcheck.run(
        "C15", a.tier, a.seed, mods, jobs=a.jobs,
        functions=["func_adl_xAOD.common.meta_data.generate_script_block", "func_adl_xAOD.atlas.xaod.executor.atlas_xaod_executor.add_to_replacement_dict",
                   "template/atlas/r21/ATestRun_eljob.py (rendered with the real jinja2 environment)"],
        explanation="the real generate_script_block on every list of <=B blocks over B names with dependency lists of length <=2 over B+1 names "
                    "(one never sent) and two script variants per name, against an independent reference (first-occurrence map, union of "
                    "dependencies, Kahn's algorithm): ValueError exactly on conflict/missing/cycle, otherwise each distinct block once, contiguous, "
                    "in order, after its dependencies. B=2 quick, B=3 thorough, plus lists of four entries with one name sent twice (two name/length "
                    "vectors quick, 25 thorough); space partitioned into conditions with <=3 symbolic integers")
    insertion_obligation(rep)
    executor_scenarios(rep)
    cov["bounds"] = {"blocks": 2 if a.tier == "quick" else 3, "deps_per_block": 2,
                     "four_entries_one_repeat": "name vectors x dependency-length vectors: 2 (identical repeat) quick, 25 (identical and conflicting repeat) thorough"}
    sys.exit(rep.finish(cov, assumptions + ["more than 3 blocks (beyond the four-entry one-repeat family) and random sampling beyond the bound are not done (outside the claim)"]))


if __name__ == "__main__":
    main()
