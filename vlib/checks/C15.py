"""C15 - job-script blocks are emitted once each in dependency order."""
import sys

from ..common import parse_args
from . import chcheck


def insertion_obligation(rep):
    """Insertion point in the ATLAS job options: the Python code jinja2 generates for the real ATestRun_eljob.py
    (Environment options and context captured from a real executor run) as a z3 string term over symbolic script
    lines must equal the template source with the lines verbatim, between job creation and algorithm creation."""
    import z3
    from ..strk import jinja_smt as js
    from pathlib import Path
    tag = "atlas:ATestRun_eljob.py:job_option_additions"
    rep.obligations += 1
    try:
        cap = js.capture("atlas", [{"metadata_type": "add_job_script", "name": "b0", "script": ["S3NT1NEL_job_0", "S3NT1NEL_job_1"], "depends_on": []}])
        ctx = cap["contexts"]["ATestRun_eljob.py"]
        if ctx.get("job_option_additions") != ["S3NT1NEL_job_0", "S3NT1NEL_job_1"]:
            d = chcheck.REPLAYS / "C15" / "insertion"
            d.mkdir(parents=True, exist_ok=True)
            (d / "finding.json").write_text(str(ctx.get("job_option_additions")))
            rep.violation(f"{tag}: script lines do not reach the template variable: {ctx.get('job_option_additions')}", d)
            return
        src = (Path(cap["template_dir"]) / "ATestRun_eljob.py").read_text()
        gen = js.generated_structure(src, cap["env_kwargs"])
        exp = js.source_structure(src)
        idx = next(i for i, p in enumerate(exp) if p[0] == "loop" and p[1] == "job_option_additions")
        pre = "".join(p[1] for p in exp[:idx] if p[0] == "const")
        post = "".join(p[1] for p in exp[idx + 1:] if p[0] == "const")
        if not ("job = ROOT.EL.Job()" in pre and "createAlgorithm" in post):
            d = chcheck.REPLAYS / "C15" / "insertion"
            d.mkdir(parents=True, exist_ok=True)
            (d / "finding.json").write_text("region")
            rep.violation(f"{tag}: the script is not inserted between job creation and algorithm creation", d)
            return
        L = [z3.String(f"l{i}") for i in range(3)]
        zctx = {"job_option_additions": L}
        side, side2 = js.Side(), js.Side()
        s = z3.Solver()
        s.set("timeout", 30000)
        for ln in L:
            s.add(z3.Length(ln) <= 4)
        got, want = js.render_term(gen, zctx, side), js.render_term(exp, zctx, side2)
        s.add(*side.cons)
        s.add(got != want)
        r = s.check()
        if r == z3.unsat:
            env = js.jinja2.Environment(**cap["env_kwargs"])
            for sp in (["a = '{{x}}'", "b = '{% y %}' # <&>"], ["", "x"]):
                if env.from_string(src).render({"job_option_additions": sp}) != js.render_concrete(gen, {"job_option_additions": sp}):
                    rep.harness(f"{tag}: translation of jinja2's generated code disagrees with the real render")
                    return
            rep.discharged += 1
        elif r == z3.sat:
            m = s.model()
            vals = [m.eval(x, model_completion=True).as_string() for x in L]
            env = js.jinja2.Environment(**cap["env_kwargs"])
            real = env.from_string(src).render({"job_option_additions": vals})
            if real != js.render_concrete(exp, {"job_option_additions": vals}):
                d = chcheck.REPLAYS / "C15" / "insertion"
                d.mkdir(parents=True, exist_ok=True)
                (d / "finding.json").write_text(str(vals))
                rep.violation(f"{tag}: script lines {vals!r} are not inserted verbatim, once, in order", d)
            else:
                rep.inconc(tag, "solver model does not reproduce with the real jinja2")
        else:
            rep.inconc(tag, "solver unknown")
    except js.Inconclusive as e:
        rep.inconc(tag, f"template outside the translator's subset: {e}")


def main():
    a = parse_args("C15")
    mods = [("h_c15", 60, None), ("h_c15_2", 120, None)]
    if a.tier == "thorough":
        mods.append(("h_c15_3", 200, None))
    rep, cov, assumptions = chcheck.run(
        "C15", a.tier, a.seed, mods, jobs=a.jobs,
        functions=["func_adl_xAOD.common.meta_data.generate_script_block", "func_adl_xAOD.atlas.xaod.executor.atlas_xaod_executor.add_to_replacement_dict",
                   "template/atlas/r21/ATestRun_eljob.py (rendered with the real jinja2 environment)"],
        explanation="the real generate_script_block on every list of <=B blocks over B names with dependency lists of length <=2 over B+1 names "
                    "(one never sent) and two script variants per name, against an independent reference (first-occurrence map, union of "
                    "dependencies, Kahn's algorithm): ValueError exactly on conflict/missing/cycle, otherwise each distinct block once, contiguous, "
                    "in order, after its dependencies. B=2 quick, B=3 thorough; space partitioned into conditions with <=3 symbolic integers")
    insertion_obligation(rep)
    cov["bounds"] = {"blocks": 2 if a.tier == "quick" else 3, "deps_per_block": 2}
    sys.exit(rep.finish(cov, assumptions + ["more than 3 blocks and random sampling beyond the bound are not done (outside the claim)"]))


if __name__ == "__main__":
    main()
