"""C15 - job-script blocks are emitted once each in dependency order."""
import sys

from ..common import parse_args
from . import chcheck


def main():
    a = parse_args("C15")
    mods = [("h_c15", 60, None), ("h_c15_2", 120, None), ("h_c15_ins", 60, None)]
    if a.tier == "thorough":
        mods.append(("h_c15_3", 200, None))
    rep, cov, assumptions = chcheck.run(
        "C15", a.tier, a.seed, mods, jobs=a.jobs,
        functions=["func_adl_xAOD.common.meta_data.generate_script_block", "func_adl_xAOD.atlas.xaod.executor.atlas_xaod_executor.add_to_replacement_dict",
                   "template/atlas/r21/ATestRun_eljob.py (rendered with the real jinja2 environment)"],
        explanation="the real generate_script_block on every list of <=B blocks over B names with dependency lists of length <=2 over B+1 names "
                    "(one never sent) and two script variants per name, against an independent reference (first-occurrence map, union of "
                    "dependencies, Kahn's algorithm): ValueError exactly on conflict/missing/cycle, otherwise each distinct block once, contiguous, "
                    "in order, after its dependencies. B=2 quick, B=3 thorough; space partitioned into conditions with <=3 symbolic integers")
    cov["bounds"] = {"blocks": 2 if a.tier == "quick" else 3, "deps_per_block": 2}
    sys.exit(rep.finish(cov, assumptions + ["more than 3 blocks and random sampling beyond the bound are not done (outside the claim)"]))


if __name__ == "__main__":
    main()
