"""C16 - runner.sh honours its flags and never reports success after a failed step."""
import itertools
import json
import os
import shutil
import stat
import subprocess
import sys
import time
from pathlib import Path as FsPath

import z3

from ..common import REPLAYS, REPO, Report, parse_args, pmap
from ..sh import shx
from ..tv.translate import TEMPLATE_DIR, scratch_root

SCRIPTS = {"atlas": "atlas/r21", "cms_aod": "cms/r5", "cms_miniaod": "cms/r7"}
EXTERNAL = ("cmake", "make", "chmod", "sudo", "scram", "mkedanlzr", "rm", "cp", "xrdcp", "python", "cmsRun", "root", "source", "tee")


def script_text(backend):
    return open(f"{REPO}/func_adl_xAOD/template/{SCRIPTS[backend]}/runner.sh").read()


def token_vectors(maxlen):
    kinds = ["c", "r", "d", "o", "x", "dmiss", "w"]
    out = [[]]
    for n in range(1, maxlen + 1):
        for combo in itertools.product(kinds, repeat=n):
            if "dmiss" in combo[:-1]:
                continue
            out.append(list(combo))
    return out


def make_tokens(kinds, inv=0):
    toks = []
    for i, k in enumerate(kinds):
        if k in ("c", "r"):
            toks.append(("flag", k, None))
        elif k == "d":
            toks.append(("flag", "d", (shx.Sym(f"X{inv}_{i}"),)))
        elif k == "o":
            toks.append(("flag", "o", (shx.Sym(f"Y{inv}_{i}"),)))
        elif k == "orel":
            toks.append(("flag", "o", (shx.Sym(f"Yrel{inv}_{i}", relative=True),)))
        elif k == "drel":
            toks.append(("flag", "d", (shx.Sym(f"Xrel{inv}_{i}", relative=True),)))
        elif k == "durl":
            toks.append(("flag", "d", (shx.Sym(f"Xurl{inv}_{i}", url=True),)))
        elif k == "x":
            toks.append(("flag", "x", None))
        elif k == "dmiss":
            toks.append(("flag", "d", None))
        elif k == "w":
            toks.append(("word", ("stray",)))
    return toks


def classify(kinds):
    """Expected behaviour of one invocation from its token kinds (independent reference)."""
    flags = []
    for k in kinds:
        if k == "w":
            break
        flags.append(k)
    rest = kinds[len(flags):]
    for k in flags:
        if k in ("x", "dmiss"):
            return {"kind": "bad_flag"}
    if rest:
        return {"kind": "stray"}
    d_idx = max([i for i, k in enumerate(kinds) if k in ("d", "drel", "durl")], default=None)
    o_idx = max([i for i, k in enumerate(kinds) if k in ("o", "orel")], default=None)
    return {"kind": "ok", "compile": "r" not in flags, "run": "c" not in flags, "d": d_idx, "o": o_idx,
            "d_rel": d_idx is not None and kinds[d_idx] == "drel", "d_url": d_idx is not None and kinds[d_idx] == "durl", "o_rel": o_idx is not None and kinds[o_idx] == "orel"}


def check_path(e, p, inv, kinds, backend):
    """Returns a list of violated clauses for invocation `inv` on path p."""
    exp = classify(kinds)
    viol = []
    ex = p.exits[inv]
    log = [l for l in p.log if l[0] == inv]
    ext = [l for l in log if l[1] in EXTERNAL or l[1] in ("cd", "mkdir")]

    def sat(extra):
        e.solver.push()
        e.solver.add(*p.pc)
        e.solver.add(extra)
        r = e.solver.check()
        e.solver.pop()
        return r == z3.sat
    if exp["kind"] == "bad_flag":
        if sat(ex != 10):
            viol.append("unknown flag / missing operand must exit 10")
        if ext:
            viol.append(f"commands ran before the flag error: {[l[1] for l in ext]}")
        return viol
    if exp["kind"] == "stray":
        if sat(ex != 1):
            viol.append("stray arguments must exit 1")
        if ext:
            viol.append(f"commands ran before the stray-argument error: {[l[1] for l in ext]}")
        return viol
    tools = [l[1] for l in log]
    if not exp["run"] and any(t in shx.Engine.JOB_TOOLS for t in tools):
        viol.append("-c must not run the analysis job")
    if not exp["compile"] and any(t in shx.Engine.BUILD_TOOLS for t in tools):
        viol.append("-r must not run a build step")
    failed = [l for l in log if l[2] == "fail"]
    mine = [rid for rid in p.jobs if rid[0] == inv]
    dest = p.dest.get(inv)
    delivered = None
    if dest is not None:
        delivered = shx.job_of(e.content(p, dest))
    if failed:
        if sat(ex == 0):
            viol.append(f"exit 0 possible after failed step {failed[0][1]} ({failed[0][3]})")
        if delivered is not None and delivered[1] in mine:
            viol.append(f"fresh output left at the destination although step {failed[0][1]} failed")
    else:
        if sat(ex != 0):
            viol.append("non-zero exit although every step succeeded")
        if exp["run"]:
            if not mine:
                viol.append("run phase finished with exit 0 but the job never ran")
            elif delivered is None or delivered[1] != mine[-1]:
                viol.append(f"exit 0 but the destination does not hold this run's output (holds {delivered})")
            else:
                fl = delivered[2]
                if exp["d"] is not None:
                    # a relative operand names a file relative to the directory the CALLER stands in (/LOCAL in the model)
                    want = ("echo", f"/LOCAL/<Xrel{inv}_{exp['d']}>" if exp.get("d_rel") else (f"<Xurl{inv}_{exp['d']}>" if exp.get("d_url") else f"<X{inv}_{exp['d']}>"))
                    if fl != want:
                        viol.append(f"-d operand is not the sole input: job read {fl}, expected {want}")
                else:
                    if not (isinstance(fl, tuple) and fl[0] == "copy" and fl[1][0] == "initial" and fl[1][1].endswith("/filelist.txt")):
                        viol.append(f"without -d the job must read the packaged filelist.txt, read {fl}")
                dshow = shx.show(dest)
                if exp["o"] is not None:
                    y = f"/LOCAL/<Yrel{inv}_{exp['o']}>" if exp.get("o_rel") else f"<Y{inv}_{exp['o']}>"
                    if dshow not in (y, y + "/ANALYSIS.root"):
                        viol.append(f"-o operand {y} is not where the output was delivered ({dshow})")
                    elif inv == 0 and dshow == y + "/ANALYSIS.root":
                        # inside Y only if Y was a directory when the script started; a path that does not exist yet, or a
                        # file, names the output file itself
                        ykey = next((k for k in e.facts if k[0] == "isdir" and shx.show(k[1]) == y), None)
                        if ykey is not None:
                            sol = z3.Solver()
                            sol.set("timeout", 5000)
                            sol.add(*e.solver.assertions())
                            sol.add(*p.pc)
                            sol.add(z3.Not(z3.And(e.fact("exists", ykey[1]), e.fact("isdir", ykey[1]))))
                            if sol.check() == z3.sat:
                                viol.append(f"-o operand {y} did not name a directory when the script started, yet the output was delivered INSIDE it ({dshow}) instead of AT it")
                else:
                    if dshow not in ("/results", "/results/ANALYSIS.root"):
                        viol.append(f"default destination is /results, delivered to {dshow}")
            if exp["compile"] and not any(t in shx.Engine.BUILD_TOOLS for t in tools):
                viol.append("no flags: build step did not run")
        else:
            if mine:
                viol.append("-c ran a job")
    return viol


# ------------------------------------------------------------------ replay against real bash
STUB = r'''#!/bin/bash
# verification stub for external tool "%(name)s": status from the schedule, effect per contract
name=%(name)s
n=$(cat "$VERIF_STATE/counter" 2>/dev/null || echo 0)
echo $((n+1)) > "$VERIF_STATE/counter"
st=$(sed -n "$((n+1))p" "$VERIF_STATE/schedule" | cut -d' ' -f2)
want=$(sed -n "$((n+1))p" "$VERIF_STATE/schedule" | cut -d' ' -f1)
echo "$name $*" >> "$VERIF_STATE/log"
if [ "$want" != "$name" ]; then echo "UNEXPECTED $name (schedule says $want)" >> "$VERIF_STATE/log"; fi
if [ -n "$st" ] && [ "$st" != "0" ]; then exit $st; fi
%(effect)s
'''
EFFECTS = {
    "cmake": "exit 0", "make": "exit 0", "scram": "exit 0", "sudo": "exit 0",
    "chmod": 'exec /bin/chmod "$@"', "rm": 'exec /bin/rm "$@"', "cp": 'exec /bin/cp "$@"', "xrdcp": 'exec /bin/cp "$@"',
    "mkedanlzr": 'mkdir -p "$1/src" "$1/plugins" "$1/python"',
    "tee": 'exec /usr/bin/tee "$@" > /dev/null',
    "python": 'sub=submitDir; for a in "$@"; do case "$a" in --submission-dir=*) sub="${a#--submission-dir=}";; esac; done; [ -f filelist.txt ] || exit 9; [ -d "$sub" ] || /bin/rm -f "$sub"; mkdir -p "$sub/data-ANALYSIS"; echo "JOB inv=$VERIF_INV input=$(cat filelist.txt)" > "$sub/data-ANALYSIS/ANALYSIS.root"',
    "cmsRun": '[ -f filelist.txt ] || exit 9; echo "JOB inv=$VERIF_INV input=$(cat filelist.txt)" > "./$CMS_OUTPUT_FILE"',
    "root": 'a="${@: -1}"; src=$(echo "$a" | sed -E \'s/.*\\("([^"]*)","([^"]*)"\\).*/\\1/\'); dst=$(echo "$a" | sed -E \'s/.*\\("([^"]*)","([^"]*)"\\).*/\\2/\'); [ -f "$src" ] || exit 9; echo "CONVERT $(cat "$src")" > "$dst"',
}
OUTSIDE = ("/home/atlas", "/xaod_calibration_cache", "/results", "/opt/cms")


def concretise(key_show, root, symmap):
    s = key_show
    for k, v in symmap.items():
        s = s.replace(f"<{k}>", v)
    for a, b in (("/DIR", str(root / "pkg")), ("/LOCAL", str(root / "work")), ("/PLAT", str(root / "plat"))):
        if s == a or s.startswith(a + "/"):
            s = b + s[len(a):]
    return s


def replay_path(e, p, history_kinds, backend, root: FsPath):
    """Run the real runner.sh under bash with stub tools following path p's schedule.
    Returns (status, text): status in ok | mismatch | skipped."""
    e.solver.push()
    e.solver.add(*p.pc)
    if e.solver.check() != z3.sat:
        e.solver.pop()
        return "skipped", "path condition not satisfiable"
    m = e.solver.model()
    e.solver.pop()
    symmap = {}
    for kinds in history_kinds:
        c = classify(kinds)
        if c["kind"] == "ok" and c["run"] and c["o"] is None:
            return "skipped", "default destination /results lies outside the scratch area (model only)"
    for inv, kinds in enumerate(history_kinds):
        for i, k in enumerate(kinds):
            if k == "d":
                symmap[f"X{inv}_{i}"] = str(root / "ext" / f"in{inv}_{i}.root")
            if k == "o":
                symmap[f"Y{inv}_{i}"] = str(root / "ext" / f"out{inv}_{i}")
            if k == "orel":
                symmap[f"Yrel{inv}_{i}"] = f"outrel{inv}_{i}"
            if k == "drel":
                symmap[f"Xrel{inv}_{i}"] = f"inrel{inv}_{i}.root"
            if k == "durl":
                symmap[f"Xurl{inv}_{i}"] = f"root://some.host//store/in{inv}_{i}.root"
    cvs = "cvsroot"
    mentioned = set()

    def consts(t):
        if z3.is_const(t) and t.decl().kind() == z3.Z3_OP_UNINTERPRETED:
            mentioned.add(t.decl().name())
        for ch in t.children():
            consts(ch)
    for c_ in p.pc:
        consts(c_)
    facts = {k: b for k, b in e.facts.items() if b.decl().name() in mentioned}
    for (kind, key), b in facts.items():
        val = z3.is_true(m.eval(b, model_completion=True))
        ks = shx.show(key)
        if any(ks == o or ks.startswith(o + "/") for o in OUTSIDE):
            if val != os.path.exists(ks):
                return "skipped", f"branch depends on absolute path {ks} outside the scratch area (model only)"
    if backend != "atlas":
        d = m.eval(shx.Sym("CVSROOT").z, model_completion=True)
        if d.as_string() == "":
            return "skipped", "CVSROOT empty needs /opt/cms/entrypoint.sh (model only)"
    if root.exists():
        shutil.rmtree(root)
    for d in ("pkg", "work", "plat", "ext", "stubs", "state"):
        (root / d).mkdir(parents=True)
    tdir = FsPath(f"{REPO}/func_adl_xAOD/template/{SCRIPTS[backend]}")
    for f in tdir.iterdir():
        if f.is_file():
            shutil.copy(f, root / "pkg" / f.name)
    os.chmod(root / "pkg" / "runner.sh", 0o755)
    # initial filesystem facts (only those the path condition mentions)
    for (kind, key), b in facts.items():
        if kind != "exists":
            continue
        ks = shx.show(key)
        val = z3.is_true(m.eval(b, model_completion=True))
        isd = ("isdir", key) in facts and z3.is_true(m.eval(facts[("isdir", key)], model_completion=True))
        if any(ks == o or ks.startswith(o + "/") for o in OUTSIDE):
            continue
        c = concretise(ks, root, symmap)
        if val:
            if isd:
                os.makedirs(c, exist_ok=True)
            else:
                os.makedirs(os.path.dirname(c), exist_ok=True)
                if not os.path.isdir(c):
                    FsPath(c).write_text(f"INIT:{ks}\n")
        else:
            if os.path.exists(c) and c != str(root / "pkg" / "filelist.txt"):
                return "skipped", f"initial absence of {ks} cannot be arranged"
            if os.path.exists(c):
                os.remove(c)
    (root / "plat" / "setup.sh").write_text('n=$(cat "$VERIF_STATE/counter" 2>/dev/null || echo 0); echo $((n+1)) > "$VERIF_STATE/counter"; '
                                            'st=$(sed -n "$((n+1))p" "$VERIF_STATE/schedule" | cut -d" " -f2); echo "source setup.sh" >> "$VERIF_STATE/log"; return ${st:-0}\n')
    for name, eff in EFFECTS.items():
        f = root / "stubs" / name
        f.write_text(STUB % {"name": name, "effect": eff})
        f.chmod(0o755)
    results = []
    for inv, kinds in enumerate(history_kinds):
        sched = []
        for (li, tool, okfail, text, st) in p.log:
            if li != inv or tool in ("cd", "mkdir"):
                continue
            v = 0 if okfail == "ok" else (m.eval(st, model_completion=True).as_long() if st is not None else 1)
            sched.append(f"{tool} {v}")
        (root / "state" / "schedule").write_text("\n".join(sched) + "\n")
        (root / "state" / "counter").write_text("0\n")
        (root / "state" / "log").write_text("")
        argv = []
        for i, k in enumerate(kinds):
            if k in ("c", "r", "x"):
                argv.append("-" + k)
            elif k == "d":
                argv += ["-d", symmap[f"X{inv}_{i}"]]
            elif k == "o":
                argv += ["-o", symmap[f"Y{inv}_{i}"]]
            elif k == "orel":
                argv += ["-o", symmap[f"Yrel{inv}_{i}"]]
            elif k == "drel":
                argv += ["-d", symmap[f"Xrel{inv}_{i}"]]
            elif k == "durl":
                argv += ["-d", symmap[f"Xurl{inv}_{i}"]]
            elif k == "dmiss":
                argv.append("-d")
            elif k == "w":
                argv.append("stray")
        env = dict(os.environ, PATH=f"{root / 'stubs'}:/usr/bin:/bin", VERIF_STATE=str(root / "state"), VERIF_INV=str(inv),
                   AnalysisBaseExternals_PLATFORM=str(root / "plat"), CVSROOT=cvs, CALIBPATH="")
        r = subprocess.run(["bash", str(root / "pkg" / "runner.sh")] + argv, cwd=root / "work", env=env, capture_output=True, text=True, timeout=60)
        want_exit = m.eval(p.exits[inv], model_completion=True).as_long()
        log = (root / "state" / "log").read_text().splitlines()
        got_tools = [l.split(" ")[0] for l in log if not l.startswith("UNEXPECTED")]
        want_tools = [s.split(" ")[0] for s in sched]
        if r.returncode != want_exit:
            return "mismatch", f"invocation {inv} {argv}: bash exit {r.returncode}, model {want_exit}; stderr tail: {r.stderr[-300:]}"
        if got_tools != want_tools or any(l.startswith("UNEXPECTED") for l in log):
            return "mismatch", f"invocation {inv} {argv}: bash ran {got_tools}, model {want_tools}"
        results.append(r.returncode)
    # delivered output of the last invocation
    inv = len(history_kinds) - 1
    dest = p.dest.get(inv)
    if dest is not None and results[-1] == 0:
        c = concretise(shx.show(dest), root, symmap)
        job = shx.job_of(e.content(p, dest))
        if not os.path.isfile(c):
            return "mismatch", f"model delivers to {c} but bash left nothing there"
        txt = FsPath(c).read_text()
        if job is not None:
            if f"JOB inv={job[1][0]} " not in txt:
                return "mismatch", f"delivered file {txt!r} is not the output of invocation {job[1][0]}"
            fl = job[2]
            if fl[0] == "echo":
                want_in = concretise(fl[1], root, symmap)
                if f"input={want_in}" not in txt:
                    return "mismatch", f"delivered file {txt!r}: input should be {want_in}"
    return "ok", ""


def analyse_history(item):
    backend, history_kinds, do_replay, replay_cap = item
    text = script_text(backend)
    hist = [make_tokens(k, inv) for inv, k in enumerate(history_kinds)]
    t0 = time.time()
    out = {"backend": backend, "history": history_kinds, "paths": 0, "violations": [], "replayed": 0, "replay_mismatch": [], "skipped": 0,
           "unsupported": None, "exit0_paths": 0, "solver_calls": 0}
    try:
        e, paths = shx.run_history(text, backend, hist, budget_s=3.0)
    except shx.ShUnsupported as ex:
        out["unsupported"] = str(ex)
        return out
    out["paths"] = len(paths)
    out["assumptions"] = sorted(e.assumptions)
    confirmed = {}
    attempts = {}
    out["truncated"] = e.truncated
    for p in paths:
        if time.time() - t0 > 10:
            out["truncated"] = True
            break
        inv = len(history_kinds) - 1
        v = check_path(e, p, inv, history_kinds[inv], backend)
        if z3.is_int_value(z3.simplify(p.exits[inv])) and z3.simplify(p.exits[inv]).as_long() == 0:
            out["exit0_paths"] += 1
        for x in v:
            if confirmed.get(x) == "ok" or attempts.get(x, 0) >= 4:
                continue
            attempts[x] = attempts.get(x, 0) + 1
            # replay the violating path on real bash before reporting it
            root = scratch_root() / f"shv-{os.getpid()}"
            st, txt = replay_path(e, p, history_kinds, backend, root)
            shutil.rmtree(root, ignore_errors=True)
            if st == "mismatch":
                out["replay_mismatch"].append(f"violating path for clause '{x}' does not replay: {txt}")
                continue
            if x in confirmed and st != "ok":
                continue
            confirmed[x] = st
            out["violations"] = [w for w in out["violations"] if w["clause"] != x]
            out["violations"].append({"clause": x, "log": [(l[1], l[2], l[3]) for l in p.log], "exits": [str(z3.simplify(x_)) for x_ in p.exits],
                                      "confirmed_on_real_bash": st == "ok", "note": "" if st == "ok" else "model-only: " + txt})
    if classify(history_kinds[-1])["kind"] == "ok" and out["exit0_paths"] == 0 and len(history_kinds) == 1:
        out["violations"].append({"clause": "reachability twin: no path exits 0 for a valid flag vector", "log": [], "exits": []})
    if do_replay:
        root = scratch_root() / f"sh-{os.getpid()}"
        step = max(1, len(paths) // replay_cap)
        for p in paths[::step][:replay_cap]:
            st, txt = replay_path(e, p, history_kinds, backend, root)
            if st == "ok":
                out["replayed"] += 1
            elif st == "skipped":
                out["skipped"] += 1
            else:
                out["replay_mismatch"].append(txt)
        shutil.rmtree(root, ignore_errors=True)
    out["solver_calls"] = e.solver_calls
    out["seconds"] = time.time() - t0
    return out


def main():
    a = parse_args("C16")
    rep = Report("C16", a.tier, a.seed, "model_checking")
    maxlen = 2 if a.tier == "quick" else 3
    vectors = token_vectors(maxlen)
    if a.tier == "thorough":
        # length-4 vectors over the valid flags only (all orders and repetitions)
        vectors += [list(c) for c in itertools.product(["c", "r", "d", "o"], repeat=4)]
    hist_alpha = [["c"], ["r", "d", "o"], ["r"], [], ["d", "o"], ["r", "o"]]
    histories = [[v] for v in vectors]
    # operands given RELATIVE to the caller's directory (the scripts change directory before they use them)
    histories += [[["orel"]], [["d", "orel"]], [["drel", "o"]], [["drel", "orel"]], [["c"], ["r", "drel", "orel"]], [["c"], ["r", "orel"]],
                  [["durl", "o"]], [["durl"]], [["c"], ["r", "durl", "o"]]]
    hl = 2 if a.tier == "quick" else 3
    for n in range(2, hl + 1):
        for combo in itertools.product(hist_alpha, repeat=n):
            if n == 3 and combo[0] not in (["c"], []):
                continue
            histories.append([list(x) for x in combo])
    items = []
    for b in SCRIPTS:
        for i, h in enumerate(histories):
            do_replay = len(h) == 1 or i % 3 == 0
            items.append((b, h, do_replay, 6 if a.tier == "quick" else 12))
    if a.limit:
        items = items[: a.limit]
    results = pmap(analyse_history, items, a.jobs)
    states = transitions = traces = 0
    assumptions = set()
    samples = []
    for it, r in zip(items, results):
        if "__error__" in r:
            rep.inconc(f"{it[0]} {it[1]}", "worker crashed: " + r["__error__"] + r.get("__trace__", "")[-300:])
            continue
        if r["unsupported"]:
            rep.inconc(f"{r['backend']} {r['history']}", "outside bash subset: " + r["unsupported"])
            continue
        if r.get("truncated"):
            rep.inconc(f"{r['backend']} {r['history']}", "path set truncated at the cap (1500 paths per invocation); only the explored prefix is claimed")
        rep.obligations += 1
        states += r["paths"]
        transitions += r["solver_calls"]
        traces += r["replayed"]
        assumptions |= set(r.get("assumptions", []))
        for mm in r["replay_mismatch"]:
            rep.harness(f"{r['backend']} {r['history']}: shell model disagrees with real bash: {mm}")
        if r["violations"]:
            d = REPLAYS / "C16" / f"{r['backend']}-{abs(hash(json.dumps(r['history']))) % 10**8}"
            d.mkdir(parents=True, exist_ok=True)
            (d / "finding.json").write_text(json.dumps(r, indent=1, default=str))
            seen = set()
            for v in r["violations"]:
                if v["clause"] in seen:
                    continue
                seen.add(v["clause"])
                rep.violation(f"{r['backend']} runner.sh {r['history']}: {v['clause']} | steps: {[x[0] + ':' + x[1] for x in v['log']][-8:]}", d)
        else:
            rep.discharged += 1
        if len(samples) < 10 and r["paths"] > 3:
            samples.append({"backend": r["backend"], "invocations": r["history"], "paths": r["paths"], "exit0_paths": r["exit0_paths"], "replayed_against_bash": r["replayed"]})
    cov = {
        "states": max(states, 1), "transitions": max(transitions, 1), "traces_validated_against_impl": traces,
        "samples": samples or [{"note": "no sample"}],
        "invocation_histories": len(items),
        "bounds": {"flag_vector_tokens": maxlen + (1 if a.tier == "thorough" else 0), "history_length": hl,
                   "token_kinds": ["-c", "-r", "-d X", "-o Y", "unknown flag", "-d without operand", "stray word"]},
        "functions_encoded": [f"func_adl_xAOD/template/{v}/runner.sh (parsed on every run)" for v in SCRIPTS.values()],
        "solver": "z3 (path feasibility, exit-status obligations) " + z3.get_version_string(),
        "states_meaning": "symbolic paths explored (each path = one class of flag operands x step outcomes x filesystem facts); transitions = solver feasibility queries",
    }
    sys.exit(rep.finish(cov, sorted(assumptions) + [
        "tools obey their contracts and are atomic (a failed cp/root leaves no partial file)",
        "branches guarded by absolute paths outside the scratch area (/home/atlas/release_setup.sh, /xaod_calibration_cache, /results, /opt/cms/entrypoint.sh) are decided by the model only, not replayed",
        "combined short flags (-cr) and operands starting with '-' are outside the token model",
        "-d / -o operands are absolute paths or URLs: a relative operand is resolved by the scripts after their own cd (outside the claim)",
        "bash-subset semantics in vlib/sh/shx.py is trusted; it is validated on every run by replaying sampled symbolic paths against real bash with stub tools (traces_validated_against_impl)"]))


if __name__ == "__main__":
    main()
