"""C17 - local docker execution runs the right image on the right files, or raises."""
import sys

from ..common import parse_args
from . import chcheck


def main():
    a = parse_args("C17")
    rep, cov, assumptions = chcheck.run(
        "C17", a.tier, a.seed, [("h_c17", 300 if a.tier == "quick" else 1200, None)], jobs=a.jobs,
        functions=["func_adl_xAOD.common.local_dataset.LocalDataset.__init__ / execute_result_async / _extract_result_TTree",
                   "func_adl_xAOD.{atlas.xaod,cms.aod,cms.miniaod}.local_dataset (three dataset classes)",
                   "func_adl_xAOD.common.executor (metadata -> extended_md('docker'))"],
        explanation="the real LocalDataset classes (coroutine driven with send(None)) under nondeterministic stubs: number of input files (1-3), which directory each lives in, "
                    "which one is missing, image and tag strings (symbolic, <=3/<=2 chars), presence of docker metadata, output directory given or not, whether "
                    "tempfile.tempdir was ever resolved in this process, container outcome (0-2 output chunks of either stream, DockerException before/at any chunk or after "
                    "the last, result file written or not). Postconditions: error before any docker.run iff a file is missing or the directories differ; filelist.txt = "
                    "/data/<name> per file in order; image = metadata image if present else image:tag; volumes = package at /scripts (ro) and /results (rw), data dir at /data/ (ro), "
                    "backend cache volume; container failure propagates and nothing is returned; missing result raises; success returns the copied file in the requested directory; "
                    "the temporary directory is gone in every case; two or three queries in a row on ONE dataset object (each with or without docker metadata, the first "
                    "succeeding or failing): every run uses its own query's image, else the dataset's image:tag")
    cov["stubs"] = ["python_on_whales (stubs/py): docker.run records its arguments, reads filelist.txt from the /scripts mount and follows the scenario",
                    "tempfile.TemporaryDirectory replaced by a deterministic factory (CrossHair patches random); tempfile._get_default_tempdir deterministic",
                    "executor._copy_template_file stubbed (jinja2 cannot execute under CrossHair); rendering is C02/C14"]
    sys.exit(rep.finish(cov, assumptions + [
        "real docker, real images and real file systems beyond the scratch directory are outside the claim",
        "file NAMES are concrete (strings reaching pathlib are realised by CrossHair); the directory/existence structure, image strings and outcomes are symbolic"]))


if __name__ == "__main__":
    main()
