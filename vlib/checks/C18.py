"""C18 - constants in a query denote the same value in the generated code."""
import json
import re
import sys

from ..common import parse_args
from ..ch import runner as ch
from . import chcheck


def main():
    a = parse_args("C18")
    sys.path.insert(0, str(ch.HARNESS))
    mods = [("h_c18_s0", 120, None), ("h_c18_s1", 300, None), ("h_c18_ctl", 120, (lambda n: n.endswith("len2")) if a.tier == "quick" else None), ("h_c18", 60, lambda n: n == "bool_constant")]
    if a.tier == "thorough":
        mods = [m if m[0] != "h_c18_ctl" else ("h_c18_ctl", 900, None) for m in mods]
        mods += [("h_c18_s2", 1500, None), ("h_c18_s3", 2400, lambda n: n.startswith(("bank_atlas", "tree_name_atlas", "method_string")))]
    rep, cov, assumptions = chcheck.run(
        "C18", a.tier, a.seed, mods, jobs=min(a.jobs, 12),
        functions=["func_adl_xAOD.common.executor.executor.apply_ast_transformations + query_ast_visitor (whole visitor + emitter, real code, per backend)",
                   "func_adl_xAOD.common.ast_to_cpp_translator.query_ast_visitor.visit_Constant (AST -> z3 for the numeric branches)",
                   "func_adl_xAOD.common.cpp_ast.process_ast_node (with the re.sub shim of harness/ch/h_common.py)",
                   "func_adl_xAOD.common.cpp_vars.cpp_string_literal (AST -> z3 LIA over code points, inductive step, every string length)"],
        explanation="strings: for symbolic s of each exact length in each position (bank name x3 backends, method string argument, attribute name, column name x3, "
                    "tree name x2, First() message) either translation raises or the C++ literal at that position, read back by an independent C++ "
                    "string-literal lexer, denotes exactly s (CrossHair, full Unicode); ints: for ALL integers (unbounded, z3 on the AST of visit_Constant) an "
                    "accepted literal fits its C++ type; floats: regex inclusion of repr(float) language in the C++ floating-literal grammar (z3); bools exhaustive")
    # trusted-base check of the re shim
    import h_common
    if not h_common.shim_selfcheck():
        rep.harness("re.sub shim of h_common disagrees with the real re.sub on the concrete battery")
    # numeric kernel (engine C)
    from ..strk import constants
    for ob in constants.obligations():
        rep.obligations += 1
        rep.solver_seconds += ob["seconds"]
        if ob["status"] == "holds":
            rep.discharged += 1
        elif ob["status"] == "cex":
            w = ob["witness"]
            confirmed = True
            if ob.get("literal_kind"):
                # witness = a literal string of the python repr language: put the constant NODE (as a captured variable would
                # arrive) into real queries - alone as a column (exact value) and behind a binary minus - and ask engine A / clang
                from ..tv import gen as _gen
                from ..tv.runner import Analyzer as _An
                an_ = _An("C18", N=1, timeout_ms=10000, want=("rows", "nofault", "twin"))
                probs = []
                for q_, tags_ in ((f"Select(EventDataset('ds'), lambda e: e.Jets('A').Select(lambda j: j.pt() - {w}))", ("fold_neg",)),
                                  (f"Select(EventDataset('ds'), lambda e: {w})", ("fold_neg", "exact"))):
                    r_ = an_.analyse(_gen.make_program(q_, "atlas", tags=tags_))
                    if r_.violations or r_.status in ("illformed", "illtyped", "frontend"):
                        probs.append(f"{q_}: {r_.status} {r_.detail[:200]} {[v["text"][:120] for v in r_.violations]}")
                confirmed = bool(probs)
                detail = f"{ob['name']}: constant {w} -> " + " || ".join(probs)
            elif isinstance(w, int) and not isinstance(w, bool):
                r = constants.replay_int(w)
                confirmed = r != "raised"
                detail = f"{ob['name']}: integer {w} is emitted as {r}"
            elif isinstance(w, str):
                import ast as _ast
                val = float(w)
                r = constants.replay_int(val)
                confirmed = r != "raised" and r[0] == w
                detail = f"{ob['name']}: float {w!r} is emitted as {r}, not a C++ floating literal"
            else:
                detail = f"{ob['name']}: {ob['detail']} (witness {w!r})"
            if confirmed:
                d = chcheck.REPLAYS / "C18" / re.sub(r"\W", "_", ob["name"])[:60]
                d.mkdir(parents=True, exist_ok=True)
                (d / "finding.json").write_text(json.dumps({k: str(v) for k, v in ob.items()}, indent=1))
                rep.violation(detail, d)
            else:
                rep.spurious.append((ob["name"], str(w), "replay raised"))
                rep.inconc(ob["name"], f"solver witness {w!r} does not reproduce")
        else:
            rep.inconc(ob["name"], ob["detail"])
    # string-literal kernel (engine C): inductive step over code points, strings of every length
    from ..strk import strlit
    for ob in strlit.obligations():
        rep.obligations += 1
        rep.solver_seconds += ob["seconds"]
        if ob["status"] == "holds":
            rep.discharged += 1
        elif ob["status"] == "cex":
            ok_, text_ = strlit.replay(ob["witness"])
            if ok_:
                d = chcheck.REPLAYS / "C18" / "string_literal_kernel"
                d.mkdir(parents=True, exist_ok=True)
                (d / "finding.json").write_text(json.dumps({"obligation": ob["name"], "witness": ob["witness"], "text": text_,
                                                            "replay": "func_adl_xAOD.common.cpp_vars.cpp_string_literal on the witness string, read back by vlib.strk.strlit.cpp_literal_bytes"}, indent=1))
                rep.violation(f"{ob['name']}: {text_}", d)
            else:
                rep.spurious.append((ob["name"], str(ob["witness"]), text_))
                rep.inconc(ob["name"], f"solver witness {ob['witness']} does not reproduce: {text_}")
        else:
            rep.inconc(ob["name"], ob["detail"])
    cov["string_literal_kernel"] = ("z3 (LIA over code points 0..0x10FFFF): cpp_vars.cpp_string_literal translated from its AST; inductive step "
                                    "'a C++ lexer at piece(c)++piece(c2)++quote reads exactly c and consumes exactly piece(c)' => literal denotes s for every length; "
                                    "UTF-8 source/execution character set assumed; numeric escapes >= 0x80 are bytes, not code points")
    # several literals in one query (engine A: value and kind of every column, all events)
    from ..tv import gen
    from ..tv.translate import BACKENDS
    from .tvcheck import TVCheck, cleanup_scratch
    tv = TVCheck("C18", a.tier, a.seed, N=3, timeout_ms=10000, want=("rows", "nofault", "schema", "twin"),
                 bad_statuses=("illformed", "illtyped", "frontend"), raised_is_violation=True)
    progs = []
    for b in (BACKENDS if a.tier == "thorough" else ("atlas",)):
        progs += gen.c18_programs(b)
    _, tvcov, _ = tv.run(progs, a.jobs, {}, rep=rep)
    cleanup_scratch()
    cov["literal_interplay_programs"] = {"programs": tvcov["programs"], "statuses": tvcov["program_statuses"]}
    cov["numeric_kernel"] = "z3: int range obligation over unbounded Int; float repr language inclusion in C++ floating-literal grammar; bool exhaustive"
    cov["bounds"] = {"string_length": "whole pipeline: 0..1 quick, 0..2 thorough (3 for three positions); literal writer alone: every length (inductive step)", "alphabet": "all of Unicode (CrossHair str)", "ints": "unbounded", "floats": "syntactic class only"}
    sys.exit(rep.finish(cov, assumptions + [
        "float VALUE fidelity (shortest round-trip repr + correctly rounded strtod) is trusted, only the literal's syntactic class is decided",
        "the re.sub shim in harness/ch/h_common.py replaces cpp_ast.re during the CrossHair runs (CrossHair's own re.sub model realises the replacement); it is compared with the real re.sub on a concrete battery at every run",
        "jinja2 rendering of the lines is not part of these conditions (covered by the C02/C14 front end: rendered text = static text + slot lines)"]))


if __name__ == "__main__":
    main()
