"""Generic driver for the engine-B (CrossHair) checks."""
import json
import re
from pathlib import Path

from ..common import Report, load_known_findings
from ..ch import runner as ch

from ..common import REPLAYS  # noqa: E402

CH_ASSUMPTIONS = [
    "CrossHair 0.0.110 explores the harness per path with z3 under a time budget; only 'Confirmed over all paths' counts as discharged, "
    "'Not confirmed' / 'Unable to meet precondition' / timeouts are inconclusive",
    "bounds of every condition are its PEP316 preconditions (string lengths, list lengths, integer ranges); inputs outside them are outside the claim",
    "values may be realised (made concrete) by CrossHair at C-level boundaries; conditions are written with ==-comparisons and small bounds so that the bounded space is exhausted either way",
    "every counterexample is re-executed in a plain interpreter on the reported arguments before it is reported; non-reproducing ones are listed as spurious",
    "each confirmed condition has a reachability twin (same preconditions, postcondition False) that must be violated",
]


def run(prop, tier, seed, modules, level="other", jobs=16, extra_assumptions=(), explanation="", functions=()):
    """modules: list of (module name, per-condition timeout seconds, name filter or None).
    Returns (Report, coverage)."""
    rep = Report(prop, tier, seed, level)
    findings = [f for f in load_known_findings(prop) if f.get("status") == "known" and f.get("ch_condition")]
    all_conds = []
    for mod, tmo, only in modules:
        all_conds += ch.collect(mod, tmo, only)
    ch.run_all(all_conds, jobs)
    by_name = {c.fn: c for c in all_conds}
    samples = []
    nontrivial = 0
    for c in all_conds:
        rep.obligations += 1
        rep.solver_seconds += c.seconds
        tag = f"{c.module}.{c.fn}"
        if c.verdict == "confirmed":
            if c.twin:
                rep.discharged += 1
                nontrivial += 1
            else:
                rep.inconc(tag, "confirmed but its reachability twin was not violated (vacuous or twin timed out)")
        elif c.verdict in ("cex", "exception"):
            if c.replayed is True:
                kf = None
                for f in findings:
                    if re.fullmatch(f["ch_condition"], c.fn) and re.search(f.get("ch_args_regex", ".*"), c.detail, re.S):
                        patched = by_name.get(f.get("ch_patched", ""))
                        if patched is not None and patched.verdict == "confirmed":
                            kf = f
                        elif patched is not None and patched.verdict in ("not_confirmed",):
                            kf = f
                            rep.inconc(f"{c.module}.{patched.fn}", "patched condition of known finding not confirmed within budget (no further counterexample)")
                        elif patched is None and not f.get("ch_patched"):
                            kf = f
                        break
                if kf:
                    rep.known(kf["id"], kf["what"][:200] + f" | observed: {c.detail[:160]}")
                else:
                    d = REPLAYS / prop / re.sub(r"\W", "_", tag)
                    d.mkdir(parents=True, exist_ok=True)
                    (d / "finding.json").write_text(json.dumps({"condition": tag, "call": ch.call_of(c.detail), "detail": c.detail,
                                                                "replay": c.replay_text, "contract": c.doc}, indent=1))
                    (d / "replay.sh").write_text(f"cd {ch.HARNESS} && PYTHONPATH={ch.HARNESS}:{ch.ROOT}:/repo {ch.PY} -c "
                                                 f"\"import {c.module} as M; print(M.{ch.call_of(c.detail)})\"\n")
                    rep.violation(f"{tag}: contract violated for {c.detail[:300]} ({c.replay_text[:120]})", d)
            elif c.replayed is False:
                rep.spurious.append((tag, c.detail[:200], c.replay_text[:100]))
                rep.inconc(tag, f"CrossHair counterexample does not reproduce concretely: {c.detail[:150]}")
            else:
                rep.inconc(tag, f"counterexample could not be replayed: {c.replay_text[:150]}")
        else:
            rep.inconc(tag, f"{c.verdict} {c.detail[:150]}")
        if len(samples) < 12:
            samples.append({"condition": tag, "contract": " | ".join(ln.strip() for ln in c.doc.splitlines() if ln.strip())[:300],
                            "verdict": c.verdict, "seconds": round(c.seconds, 1)})
    cov = {
        "evaluations": len(all_conds),
        "distinct_nontrivial": nontrivial,
        "rule": "one CrossHair condition = one harness function with its own preconditions (partition of the bounded input space); "
                "non-trivial = confirmed over all paths AND its reachability twin violated",
        "samples": samples or [{"note": "none"}],
        "explanation": explanation or "bounded symbolic execution of the repository's own functions (CrossHair/z3)",
        "functions_encoded": list(functions),
        "solver": "crosshair-tool 0.0.110 (z3)",
        "verdicts": {v: sum(1 for c in all_conds if c.verdict == v) for v in sorted({c.verdict for c in all_conds})},
    }
    return rep, cov, CH_ASSUMPTIONS + list(extra_assumptions)
