"""Generic driver for the engine-A (translation validation) checks."""
import json
import os
import sys
import time
from pathlib import Path

from ..common import Report, load_known_findings, pmap
from .. import kf as kfmod
from ..tv.runner import Analyzer
from ..tv.translate import scratch_root

ENGINE_A_ASSUMPTIONS = [
    "events have at most N elements per collection (N in coverage.bounds); larger events are outside the claim",
    "double = mathematical real; float = real + uninterpreted idempotent rounding rf; int inputs bounded by 2^15 (no 32-bit overflow modelled)",
    "every collection the query names is present in the event for the row/fault obligations (absent collections are handled by C06)",
    "divisors are non-zero; '%' operands are non-negative (as the property says)",
    "Min()/Max() of an empty sequence is unspecified (neither the property nor func_adl gives it a meaning)",
    "methods of event-data-model objects are pure functions of the object (uninterpreted), the same on both sides",
    "the C++-subset semantics of the symbolic executor (vlib/tv/symexec.py) is trusted; it is cross-validated against clang-compiled runs of the real package on every solver model that is replayed",
    "the outer quantifier over programs is a bounded enumeration (exhaustive below the stated grammar size, hashed subset above), not a solver claim",
]


def summarize(r, kf_ids=(), patched=None):
    d = {
        "src": (r.prog.src or r.prog.query)[:500],
        "backend": r.prog.backend,
        "status": r.status,
        "detail": r.detail[:500],
        "verdicts": [(v.name, v.status, round(v.seconds, 3)) for v in r.verdicts],
        "violations": [{"obligation": v["obligation"], "text": v["text"][:600], "replay": v["replay"]} for v in r.violations],
        "inconclusive": [(a, b[:300]) for a, b in r.inconclusive],
        "spurious": [(a, b[:300]) for a, b in r.spurious],
        "seconds": r.seconds,
        "solver_seconds": r.solver_seconds,
        "nontrivial": bool(r.nontrivial),
        "harness_error": getattr(r, "harness_error", None),
        "kf": list(kf_ids),
        "features": sorted(r.features)[:30],
        "tags": list(r.prog.tags),
    }
    return d


class TVCheck:
    def __init__(self, prop, tier, seed, N, timeout_ms, want, member_pre="empty",
                 bad_statuses=("illformed", "illtyped", "frontend"), raised_is_violation=True,
                 level="translation_validation"):
        self.prop = prop
        self.tier = tier
        self.seed = seed
        self.an = Analyzer(prop, N=N, timeout_ms=timeout_ms, want=want, member_pre=member_pre)
        self.findings = load_known_findings(prop)
        self.bad_statuses = set(bad_statuses)
        self.raised_is_violation = raised_is_violation
        self.level = level

    def has_problem(self, r):
        if "must_raise" in r.prog.tags:
            return r.status != "raised"
        if r.violations:
            return True
        if r.status in self.bad_statuses:
            return True
        if r.status == "raised" and self.raised_is_violation and "optional" not in r.prog.tags:
            return True      # ('optional': a construct the documentation does not promise - refusing it is fine, accepting it wrongly is not)
        return False

    def work(self, prog):
        r = self.an.analyse(prog)
        if self.has_problem(r):
            # findings identified by the exact failing input (regex over the query source) and the obligations / status they
            # explain: anything else that is wrong with the same program is still reported
            import re as _re
            src = prog.src or prog.query
            for f in self.findings:
                if f.get("status") != "known" or not f.get("src_regex") or not _re.search(f["src_regex"], src):
                    continue
                if f.get("backends") and prog.backend not in f["backends"]:
                    continue
                explained = set(f.get("obligations", []))
                kinds = {v["obligation"].split(":")[0] for v in r.violations}
                if r.status in self.bad_statuses:
                    kinds.add("status:" + r.status)
                if r.status == "raised" and self.raised_is_violation and "optional" not in prog.tags:
                    kinds.add("status:raised")
                if r.status in self.bad_statuses and f.get("detail_regex") and not _re.search(f["detail_regex"], r.detail or ""):
                    continue
                if kinds and kinds <= explained:
                    s = summarize(r, kf_ids=[f["id"]])
                    s["attributed"] = True
                    return s
            app = kfmod.applicable(self.findings, prog)
            if app and "must_raise" in prog.tags and not any(f.get("patch") for f in app):
                # finding identified purely by its failing inputs (predicate): nothing to re-discharge
                s = summarize(r, kf_ids=[f["id"] for f in app])
                s["attributed"] = True
                return s
            if app:
                patches = [f["patch"] for f in app if f.get("patch")]
                r2 = self.an.analyse(prog, patches=patches)
                if not self.has_problem(r2):
                    s = summarize(r, kf_ids=[f["id"] for f in app])
                    s["attributed"] = True
                    s["patched_inconclusive"] = [(a, b[:200]) for a, b in r2.inconclusive]
                    return s
                s = summarize(r2)
                s["note"] = "violation persists with known-finding patches " + ",".join(patches)
                s["first_run"] = summarize(r)["violations"]
                return s
        return summarize(r)

    def run(self, programs, jobs, meta, extra_assumptions=(), rep=None):
        rep = rep or Report(self.prop, self.tier, self.seed, self.level)
        results = pmap(self.work, programs, jobs)
        statuses = {}
        distinct_nontrivial = 0
        for prog, s in zip(programs, results):
            if "__error__" in s:
                rep.inconc(prog.src or prog.query, "worker crashed: " + s["__error__"])
                continue
            statuses[s["status"]] = statuses.get(s["status"], 0) + 1
            rep.solver_seconds += s["solver_seconds"]
            if s.get("harness_error"):
                rep.harness(f"{s['src']} [{s['backend']}]: {s['harness_error']}")
            for name, st, _ in s["verdicts"]:
                if name.startswith("twin_"):
                    continue
                rep.obligations += 1
                if st == "holds":
                    rep.discharged += 1
            if s["nontrivial"]:
                distinct_nontrivial += 1
            for a, b in s["inconclusive"]:
                rep.inconc(f"{s['src']} [{s['backend']}] {a}", b)
            for a, b in s["spurious"]:
                rep.spurious.append((s["src"], a, b))
            if s.get("attributed"):
                for fid in s["kf"]:
                    f = next(x for x in self.findings if x["id"] == fid)
                    rep.known(fid, f["what"][:200] + f" | observed on: {s['src'][:160]} [{s['backend']}]")
                continue
            self.classify(rep, s)
        cov = {
            "programs": len(programs),
            "disagreements_checked": sum(1 for s in results if "__error__" not in s and (s["violations"] or s["spurious"] or s.get("attributed"))),
            "evaluations": len(programs),
            "distinct_nontrivial": distinct_nontrivial,
            "rule": "distinct canonical query text per backend; non-trivial = the emitted code contains a loop and the solver confirmed some event fills a row",
            "program_statuses": statuses,
            "bounds": {"N_elements_per_collection": self.an.N, "solver_timeout_ms": self.an.timeout_ms},
            "functions_encoded": ["rendered query.cxx/query.h/Analyzer.cc slots (query_code, book_code, class_decl) parsed back from disk",
                                  "func_adl_xAOD.common.executor.executor.apply_ast_transformations + write_cpp_files (run concretely per program)"],
            "solver": "z3 " + __import__("z3").get_version_string(),
            "samples": [{"query": s["src"][:300], "backend": s["backend"], "status": s["status"],
                         "obligations": {n: st for n, st, _ in s["verdicts"]}} for s in results[:: max(1, len(results) // 10)] if "__error__" not in s][:12],
        }
        cov.update(meta)
        return rep, cov, results

    def classify(self, rep, s):
        tag = f"{s['src'][:300]} [{s['backend']}]" + (" [translated as the SECOND query of one executor object]" if "twice" in s["tags"] else "")
        if "must_raise" in s["tags"]:
            if s["status"] != "raised":
                d = self.write_simple_bundle(s)
                rep.violation(f"query must be refused but translation returned a package (status {s['status']}) || {tag}", d)
            else:
                rep.obligations += 1
                rep.discharged += 1
            return
        if s["violations"]:
            for v in s["violations"]:
                rep.violation(f"{v['obligation']}: {v['text']} || {tag}", v["replay"])
        elif s["status"] in self.bad_statuses:
            d = self.write_simple_bundle(s)
            rep.violation(f"package not well-formed ({s['status']}): {s['detail']} || {tag}", d)
        elif s["status"] == "raised" and self.raised_is_violation and "optional" not in s["tags"]:
            d = self.write_simple_bundle(s)
            rep.violation(f"query of the documented fragment was not accepted: {s['detail']} || {tag}", d)
        elif s["status"] in ("illformed", "illtyped", "frontend"):
            rep.inconc(tag, f"package not well-formed ({s['status']}: {s['detail'][:200]}) - reported by C02, no row semantics here")
        elif s["status"] == "raised" and "optional" in s["tags"]:
            rep.obligations += 1
            rep.discharged += 1          # refusing an undocumented construct is an acceptable outcome
        elif s["status"] == "raised":
            rep.inconc(tag, f"translator raised: {s['detail'][:200]}")

    def write_simple_bundle(self, s):
        import hashlib
        from ..tv.runner import REPLAY_ROOT
        h = hashlib.sha1((s["backend"] + s["src"] + ("|twice" if "twice" in s["tags"] else "")).encode()).hexdigest()[:12]
        d = REPLAY_ROOT / self.prop / h
        d.mkdir(parents=True, exist_ok=True)
        (d / "src.txt").write_text(s["src"] + "\n")
        (d / "backend.txt").write_text(s["backend"] + "\n")
        (d / "finding.json").write_text(json.dumps(s, indent=1, default=str))
        return d


def cleanup_scratch():
    import shutil
    shutil.rmtree(scratch_root(), ignore_errors=True)
