"""Shared plumbing for all checks: tiers, seeds, evidence files, known findings,
VIOLATION / KNOWN-FINDING lines and exit codes (0 held / 1 violation / 3 harness error)."""
import argparse
import json
import multiprocessing as mp
import os
import sys
import time
import traceback
from pathlib import Path

ROOT = Path(__file__).resolve().parents[1]
# VERIF_REPO / VERIF_EVIDENCE_DIR / VERIF_REPLAYS exist for seed evaluation and background sweeps against a scratch
# worktree (tools/seed_eval.py --worktree, vp run --with-repo); the registered commands never set them: they check /repo.
REPO = os.environ.get("VERIF_REPO", "/repo")
EVIDENCE = Path(os.environ.get("VERIF_EVIDENCE_DIR", ROOT / "evidence"))
REPLAYS = Path(os.environ.get("VERIF_REPLAYS", ROOT / "replays"))
KF_FILE = ROOT / "known_findings.jsonl"

EXIT_OK, EXIT_VIOLATION, EXIT_HARNESS = 0, 1, 3


def parse_args(prop):
    ap = argparse.ArgumentParser(prog=f"vcheck {prop}")
    ap.add_argument("--tier", default=os.environ.get("VERIF_TIER", "quick"), choices=["quick", "thorough"])
    ap.add_argument("--seed", type=int, default=int(os.environ.get("VERIF_SEED", "0") or 0))
    ap.add_argument("--replay", default=None)
    ap.add_argument("--jobs", type=int, default=int(os.environ.get("VERIF_JOBS", "0") or 0))
    ap.add_argument("--limit", type=int, default=0, help="debug: only the first n programs")
    a = ap.parse_args()
    # one scratch area per check run: worker processes put their directories under it, the main process removes it at the end
    os.environ.setdefault("VERIF_RUN_ID", f"{prop}-{os.getpid()}")
    import atexit
    import shutil
    import tempfile
    _area = os.path.join(os.environ.get("VERIF_SCRATCH", tempfile.gettempdir()), "verif-" + os.environ["VERIF_RUN_ID"])
    _owner = os.getpid()
    atexit.register(lambda: shutil.rmtree(_area, ignore_errors=True) if os.getpid() == _owner else None)
    if not a.jobs:
        a.jobs = min(16, os.cpu_count() or 4)
    return a


def load_known_findings(prop=None):
    out = []
    if KF_FILE.exists():
        for ln in KF_FILE.read_text().splitlines():
            ln = ln.strip()
            if not ln or ln.startswith("#"):
                continue
            e = json.loads(ln)
            if prop is None or prop in e.get("properties", []):
                out.append(e)
    return out


class Report:
    """Collects what a check run did and writes evidence + the verdict lines."""

    def __init__(self, prop, tier, seed, level):
        self.prop = prop
        self.tier = tier
        self.seed = seed
        self.level = level
        self.t0 = time.time()
        self.violations = []       # dict(text, replay)
        self.known_hits = {}       # finding id -> dict(text, count)
        self.inconclusive = []     # (what, why)
        self.spurious = []
        self.harness_errors = []
        self.coverage = {}
        self.assumptions = []
        self.obligations = 0
        self.discharged = 0
        self.solver_seconds = 0.0
        self.samples = []
        self.notes = {}

    def violation(self, text, replay):
        self.violations.append({"text": text, "replay": str(replay)})

    def known(self, fid, text):
        e = self.known_hits.setdefault(fid, {"text": text, "count": 0})
        e["count"] += 1

    def inconc(self, what, why):
        self.inconclusive.append((str(what)[:300], str(why)[:400]))

    def harness(self, text):
        self.harness_errors.append(str(text)[:1000])

    def finish(self, coverage, assumptions):
        wall = time.time() - self.t0
        cov = dict(coverage)
        cov.setdefault("obligations", self.obligations)
        cov.setdefault("discharged", self.discharged)
        cov["inconclusive"] = len(self.inconclusive)
        cov["inconclusive_list"] = [list(x) for x in self.inconclusive[:40]]
        cov["spurious_models"] = len(self.spurious)
        cov["spurious_list"] = [list(map(str, x)) for x in self.spurious[:20]]
        cov["known_finding_hits"] = {k: v["count"] for k, v in self.known_hits.items()}
        cov["solver_seconds"] = round(self.solver_seconds, 3)
        cov["harness_errors"] = self.harness_errors[:10]
        try:
            import func_adl_xAOD
            cov["code_under_check"] = str(Path(func_adl_xAOD.__file__).resolve().parent)
        except Exception:  # noqa: BLE001
            cov["code_under_check"] = REPO
        if self.samples and "samples" not in cov:
            cov["samples"] = self.samples[:12]
        ev = {
            "property_id": self.prop,
            "tier": self.tier,
            "seed": self.seed,
            "level": self.level,
            "coverage": cov,
            "assumptions": list(assumptions),
            "wall_s": round(wall, 3),
            "violations": len(self.violations),
        }
        EVIDENCE.mkdir(exist_ok=True)
        tmp = EVIDENCE / f".{self.prop}.json.tmp"
        tmp.write_text(json.dumps(ev, indent=1, default=str) + "\n")
        tmp.replace(EVIDENCE / f"{self.prop}.json")
        for fid, e in sorted(self.known_hits.items()):
            print(f"KNOWN-FINDING: property={self.prop} {fid} {e['text']}")
        for v in self.violations:
            print(f"# {v['text']}")
            print(f"VIOLATION property={self.prop} replay={v['replay']}")
        print(f"[{self.prop}] tier={self.tier} obligations={cov.get('obligations')} discharged={cov.get('discharged')} "
              f"inconclusive={len(self.inconclusive)} known={len(self.known_hits)} violations={len(self.violations)} "
              f"harness_errors={len(self.harness_errors)} wall={wall:.1f}s")
        sys.stdout.flush()
        for h in self.harness_errors[:5]:
            print(f"# HARNESS-ERROR {h}", file=sys.stderr)
        if self.violations:
            # every reported violation was replayed on the real code, so it stands on its own
            return EXIT_VIOLATION
        if self.harness_errors:
            return EXIT_HARNESS      # nothing is claimed by this run
        return EXIT_OK


_FN = None
_ITEMS = None


def _worker_wrap(i):
    item = _ITEMS[i]
    try:
        return _FN(item)
    except Exception as e:  # noqa: BLE001
        return {"__error__": f"{type(e).__name__}: {e}", "__trace__": traceback.format_exc()[-1500:], "__item__": str(item)[:300]}


def pmap(fn, items, jobs):
    """Parallel map with fork; items/fn are inherited by the forked workers (no pickling of
    inputs); fn must return picklable plain data."""
    global _FN, _ITEMS
    _FN, _ITEMS = fn, list(items)
    n = len(_ITEMS)
    if jobs <= 1 or n <= 1:
        return [_worker_wrap(i) for i in range(n)]
    ctx = mp.get_context("fork")
    with ctx.Pool(min(jobs, n)) as pool:
        return pool.map(_worker_wrap, range(n), chunksize=max(1, n // (jobs * 8)))
