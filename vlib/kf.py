"""Applicability predicates of known findings (known_findings.jsonl).

A known finding is attributed to a counterexample only when its predicate holds for the
failing input AND the same obligations re-discharged with the finding's patch of the
reference semantics come back clean (see DESIGN 1.5)."""
import ast


def _calls(tree, names):
    for n in ast.walk(tree):
        if isinstance(n, ast.Call):
            f = n.func
            if isinstance(f, ast.Name) and f.id in names:
                yield n
            elif isinstance(f, ast.Attribute) and f.attr in names:
                yield n


def _parse(q):
    return ast.parse(q, mode="eval")


def uses_minmax(prog):
    return any(True for _ in _calls(_parse(prog.query), {"Min", "Max"}))


def _is_const(n):
    if isinstance(n, ast.Constant):
        return True
    if isinstance(n, ast.UnaryOp):
        return _is_const(n.operand)
    if isinstance(n, ast.BinOp):
        return _is_const(n.left) and _is_const(n.right)
    return False


def range_with_computed_bound(prog):
    for c in _calls(_parse(prog.query), {"Range"}):
        args = c.args if isinstance(c.func, ast.Name) else c.args
        if any(not _is_const(a) for a in args[-2:]):
            return True
    return False


def mod_present(prog):
    return any(isinstance(n, ast.BinOp) and isinstance(n.op, ast.Mod) for n in ast.walk(_parse(prog.query)))


def int_division(prog):
    return any(isinstance(n, ast.BinOp) and isinstance(n.op, ast.Div) for n in ast.walk(_parse(prog.query)))


def raw_object_output(prog):
    "the query's final value is a data-model object (First() of an object sequence / identity Select)"
    import re
    q = prog.src or prog.query
    return bool(re.search(r"\.First\(\)\)\s*$", q) or re.search(r"lambda (\w+): \1\)\s*$", q)
                or re.fullmatch(r"SelectMany\(EventDataset\('ds'\), lambda e: e\.\w+\('\w+'\)\)", q.strip())      # one raw object per row
                or re.search(r"lambda (\w+): \(\1\.pt\(\), \1\)\)\s*$", q)                                      # a raw object inside a tuple
                or re.search(r"lambda e: e\.EventInfo\('EI'\)\)\s*$", q))                                            # a singleton object


def compares_object(prog):
    "a comparison whose operand is a bare data-model object (a lambda parameter bound to an element, or a singleton collection)"
    import re
    q = prog.src or prog.query
    return bool(re.search(r"\((j|t) (>|==) (1|j|t)\)", q) or re.search(r"\(e\.EventInfo\('EI'\) > 1\)", q))


def declares_tree_type(prog):
    return "'tree_type'" in prog.query


PREDICATES = {
    "declares_tree_type": declares_tree_type,
    "raw_object_output": raw_object_output,
    "compares_object": compares_object,
    "uses_minmax": uses_minmax,
    "range_with_computed_bound": range_with_computed_bound,
    "mod_present": mod_present,
    "int_division": int_division,
}


def applicable(findings, prog):
    out = []
    for f in findings:
        if f.get("status") != "known":
            continue
        p = PREDICATES.get(f.get("predicate", ""))
        if p is None:
            continue
        try:
            if p(prog):
                out.append(f)
        except SyntaxError:
            pass
    return out
