"""Engine D: forking symbolic execution of the bash subset used by the three runner.sh
templates.  Flag operands are symbolic strings, every external command instance has a
symbolic exit status, initial filesystem facts are symbolic booleans; z3 keeps each path
condition satisfiable.  A construct outside the subset raises ShUnsupported (the script is
then inconclusive, never passed)."""
import itertools
import re

import z3


class ShUnsupported(Exception):
    pass


# ------------------------------------------------------------------ parsing
class Node:
    def __init__(self, kind, **kw):
        self.kind = kind
        self.__dict__.update(kw)

    def __repr__(self):
        return f"{self.kind}:{ {k: v for k, v in self.__dict__.items() if k != 'kind'} }"


def preprocess(text):
    out = []
    lines = text.split("\n")
    i = 0
    while i < len(lines):
        ln = lines[i].rstrip()
        i += 1
        st = ln.strip()
        if not st or st.startswith("#"):
            continue
        m = re.match(r"^cat > (\S+) << '?(\w+)'?$", st)
        if m:
            body = []
            while i < len(lines) and lines[i].strip() != m.group(2):
                body.append(lines[i])
                i += 1
            if i >= len(lines):
                raise ShUnsupported("unterminated here-doc")
            i += 1
            out.append(("heredoc", m.group(1), "\n".join(body)))
            continue
        if "<<" in st:
            raise ShUnsupported(f"here-doc form: {st}")
        out.append(("line", st if st == ";;" else st.rstrip(";").rstrip()))
    return out


def parse(items, i=0, stop=()):
    body = []
    while i < len(items):
        kind = items[i][0]
        if kind == "heredoc":
            body.append(Node("write", target=items[i][1], content=items[i][2]))
            i += 1
            continue
        ln = items[i][1]
        if ln in stop or any(ln.startswith(s + " ") for s in stop if s == "elif"):
            return body, i
        i += 1
        m = re.match(r'^while getopts "(.*)" (\w+); do$', ln)
        if m:
            if not re.match(r'^case "\$\w+" in$', items[i][1]):
                raise ShUnsupported("getopts loop body must be a case")
            i += 1
            cases = {}
            while items[i][1] != "esac":
                pat = items[i][1]
                if not pat.endswith(")"):
                    raise ShUnsupported(f"case pattern {pat}")
                i += 1
                cb, i = parse(items, i, stop=(";;", "esac"))
                cases[pat[:-1]] = cb
                if items[i][1] == ";;":
                    i += 1
            i += 1
            if items[i][1] != "done":
                raise ShUnsupported("statements after case inside getopts loop")
            i += 1
            body.append(Node("getopts", spec=m.group(1), var=m.group(2), cases=cases))
            continue
        m = re.match(r"^if (.*); then$", ln)
        if m:
            arms = []
            cond = m.group(1)
            while True:
                b, i = parse(items, i, stop=("elif", "else", "fi"))
                arms.append((cond, b))
                nxt = items[i][1]
                i += 1
                if nxt == "fi":
                    break
                if nxt == "else":
                    b, i = parse(items, i, stop=("fi",))
                    arms.append((None, b))
                    i += 1
                    break
                mm = re.match(r"^elif (.*); then$", nxt)
                if not mm:
                    raise ShUnsupported(nxt)
                cond = mm.group(1)
            body.append(Node("if", arms=arms))
            continue
        m = re.match(r"^(\w+)=(.*)$", ln)
        if m and not re.search(r"&&|\|\|", re.sub(r'"[^"]*"|\'[^\']*\'|`[^`]*`', "", ln)):
            body.append(Node("assign", name=m.group(1), value=m.group(2)))
            continue
        m = re.match(r"^(?:function\s+)?(\w+)\s*(?:\(\))?\s*\{$", ln)
        if m and (ln.startswith("function ") or "()" in ln):
            b, i = parse(items, i, stop=("}",))
            i += 1
            body.append(Node("function", name=m.group(1), body=b))
            continue
        m = re.match(r"^while (.*); do$", ln)
        if m:
            b, i = parse(items, i, stop=("done",))
            i += 1
            body.append(Node("while", cond=m.group(1), body=b))
            continue
        m = re.match(r"^for (\w+) in (.*); do$", ln)
        if m:
            b, i = parse(items, i, stop=("done",))
            i += 1
            body.append(Node("for", var=m.group(1), words=m.group(2), body=b))
            continue
        if re.match(r"^(for|while|until|case|function)\b", ln) or ln.endswith("{") or "&" in ln.replace("2>&1", "").replace("&&", ""):
            raise ShUnsupported(f"construct outside subset: {ln}")
        if "&&" in ln.replace("2>&1", "") or "||" in ln:
            bare = re.sub(r'"[^"]*"|\'[^\']*\'', '""', ln)           # quoted text is data, not syntax
            if any(ch in bare for ch in "()`") or "[[" in bare or re.search(r"(^|\s)\[\s", bare):
                raise ShUnsupported(f"construct outside subset: {ln}")
            body.append(Node("andor", text=ln))
            continue
        body.append(Node("cmd", text=ln))
    return body, i


def parse_script(text):
    ast_, i = parse(preprocess(text))
    return ast_


# ------------------------------------------------------------------ word values
class Sym:
    "A symbolic string operand (flag argument); `relative`: a path relative to the caller's working directory."
    def __init__(self, name, relative=False, url=False):
        self.name = name
        self.z = z3.String(name)
        self.relative = relative
        self.url = url

    def __repr__(self):
        return f"<{self.name}>"

    def __eq__(self, o):
        return isinstance(o, Sym) and o.name == self.name

    def __hash__(self):
        return hash(("Sym", self.name))


def norm(parts):
    out = []
    for p in parts:
        if isinstance(p, str):
            if p == "":
                continue
            if out and isinstance(out[-1], str):
                out[-1] += p
            else:
                out.append(p)
        else:
            out.append(p)
    return tuple(out)


def conc(v):
    v = norm(v)
    if not v:
        return ""
    if len(v) == 1 and isinstance(v[0], str):
        return v[0]
    return None


def zstr(v):
    v = norm(v)
    if not v:
        return z3.StringVal("")
    ts = [z3.StringVal(p) if isinstance(p, str) else p.z for p in v]
    r = ts[0]
    for t in ts[1:]:
        r = z3.Concat(r, t)
    return r


def show(v):
    return "".join(p if isinstance(p, str) else f"<{p.name}>" for p in norm(v))


class Path:
    def __init__(self):
        self.pc = []
        self.vars = {}
        self.args = []
        self.cwd = "/LOCAL"
        self.log = []       # (invocation, tool, 'ok'|'fail', argv text, status term|None)
        self.fs = []        # updates: (key, exists, isdir, content) | ('rmtree', key)
        self.exit = None
        self.errexit = False
        self.inv = 0
        self.exits = []     # exit status terms of finished invocations
        self.jobs = []      # (invocation, run id)
        self.dest = {}      # invocation -> destination key delivered to (on the success path)
        self.toks = None

    def clone(self):
        p = Path()
        p.pc = list(self.pc)
        p.vars = dict(self.vars)
        p.args = list(self.args)
        p.cwd = self.cwd
        p.log = list(self.log)
        p.fs = list(self.fs)
        p.exit = self.exit
        p.errexit = self.errexit
        p.inv = self.inv
        p.exits = list(self.exits)
        p.jobs = list(self.jobs)
        p.dest = dict(self.dest)
        p.toks = self.toks
        return p


class Engine:
    WHILE_UNROLL = 3
    JOB_TOOLS = ("python", "cmsRun")
    BUILD_TOOLS = ("cmake", "make", "scram", "mkedanlzr")

    def __init__(self, script_text, backend):
        self.ast = parse_script(script_text)
        self.backend = backend
        self.counter = itertools.count()
        self.solver = z3.Solver()
        self.solver.set("timeout", 5000)
        self.facts = {}      # ('exists'|'isdir', key) -> z3 Bool
        self.functions = {}  # shell functions defined so far: name -> body
        self.assumptions = set()
        self.max_paths = 1500
        self.truncated = False
        self.deadline = None
        self.solver_calls = 0

    # ---- feasibility
    def feasible(self, p):
        self.solver_calls += 1
        self.solver.push()
        self.solver.add(*p.pc)
        r = self.solver.check()
        self.solver.pop()
        return r != z3.unsat

    def fact(self, kind, key):
        k = (kind, key)
        if k not in self.facts:
            self.facts[k] = z3.Bool(f"{kind}0[{show(key)}]")
            if kind == "exists":
                par = self.parent(key)
                if par is not None:
                    # a path can only exist inside an existing directory
                    self.solver.add(z3.Implies(self.facts[k], z3.And(self.fact("exists", par), self.fact("isdir", par))))
        return self.facts[k]

    @staticmethod
    def parent(key):
        key = norm(key)
        if not key or not isinstance(key[-1], str):
            return None
        last = key[-1]
        if "/" not in last.rstrip("/"):
            return None
        head = last.rstrip("/").rsplit("/", 1)[0]
        if head == "":
            if len(key) == 1:
                return None          # parent is the root directory
            return norm(key[:-1])
        return norm(key[:-1] + (head,))

    # ---- filesystem
    def abspath(self, p, v):
        v = norm(v)
        c = conc(v)
        if c is None:
            if v and isinstance(v[0], Sym) and v[0].relative:
                # a relative symbolic operand used as a path: resolved against the CURRENT directory of the script, as bash does
                return norm((p.cwd.rstrip("/") + "/",) + tuple(v))
            # symbolic operand: assumed absolute and outside the package / work directories
            self.assumptions.add("symbolic -d/-o operands are absolute paths outside the package and working directories, without IFS whitespace or glob characters")
            return v
        if c.startswith("/"):
            comps, base = [x for x in c.split("/") if x], []
        else:
            comps, base = [x for x in c.split("/") if x and x != "."], [x for x in p.cwd.split("/") if x]
        for x in comps:
            if x == "..":
                if base:
                    base.pop()
            elif x != ".":
                base.append(x)
        return ("/" + "/".join(base),)

    @staticmethod
    def under(key, root):
        k, r = conc(key), conc(root)
        if k is not None and r is not None:
            return k == r or k.startswith(r.rstrip("/") + "/")
        if len(key) >= len(root) and key[:len(root) - 1] == root[:-1] and isinstance(root[-1], str):
            last = key[len(root) - 1]
            return isinstance(last, str) and (last == root[-1] or last.startswith(root[-1].rstrip("/") + "/"))
        return key == root

    def lookup(self, p, key):
        "latest update for key: returns (exists, isdir, content) with python bools or None if initial"
        for u in reversed(p.fs):
            if u[0] == "rmtree":
                if self.under(key, u[1]):
                    return (False, False, None)
                continue
            if u[0] == key:
                return (u[1], u[2], u[3])
            if u[1] and self.under(u[0], key):
                return (True, True, None)       # a later-created entry below it: it is a directory
        return None

    def exists(self, p, key, want_dir=False):
        r = self.lookup(p, key)
        if r is None:
            # removed / never created parent directory decides
            par = self.parent(key)
            while par is not None:
                rp = self.lookup(p, par)
                if rp is not None:
                    if not rp[0] or not rp[1]:
                        return z3.BoolVal(False)
                    if rp[1] and any(u[0] == par and u[1] for u in p.fs if u[0] != "rmtree"):
                        # the directory was created during this history: nothing below it pre-exists
                        return z3.BoolVal(False)
                    break
                par = self.parent(par)
            e = self.fact("exists", key)
            if want_dir:
                return z3.And(e, self.fact("isdir", key))
            return e
        ex, isdir, _ = r
        return z3.BoolVal(bool(ex and (isdir or not want_dir)))

    def content(self, p, key):
        r = self.lookup(p, key)
        if r is None:
            return ("initial", show(key))
        return r[2]

    # ---- expansion
    def expand(self, p, w):
        w = w.strip()
        if len(w) >= 2 and w[0] == "'" and w[-1] == "'":
            return (w[1:-1],)
        if len(w) >= 2 and w[0] == '"' and w[-1] == '"':
            w = w[1:-1]
        parts = []
        i = 0
        rx = re.compile(r"\$\{(\w+)\}|\$(\w+|#|@)")
        arx = re.compile(r"\$\(\(([^()]*)\)\)")
        while i < len(w):
            am = arx.match(w, i)
            if am:
                # arithmetic expansion over integer-valued variables and + - * (concrete values only)
                expr = am.group(1)

                def val(mm):
                    v = conc(p.vars.get(mm.group(1), ("0",)))
                    if v is None or not re.fullmatch(r"-?\d+", v.strip() or "0"):
                        raise ShUnsupported(f"arithmetic on a non-numeric / symbolic variable in {w!r}")
                    return v.strip() or "0"
                flat = re.sub(r"\$?([A-Za-z_]\w*)", val, expr)
                if not re.fullmatch(r"[\d\s+*-]+", flat):
                    raise ShUnsupported(f"arithmetic expression {expr!r}")
                parts.append(str(eval(flat)))      # digits, blanks, + - * only
                i = am.end()
                continue
            m = rx.match(w, i)
            if m:
                name = m.group(1) or m.group(2)
                if name == "#":
                    parts.append(str(len(p.args)))
                elif name == "@":
                    for k, a in enumerate(p.args):
                        if k:
                            parts.append(" ")
                        parts.extend(a)
                elif name.isdigit():
                    if int(name) <= len(p.args):
                        parts.extend(p.args[int(name) - 1])
                else:
                    parts.extend(p.vars.get(name, ()))
                i = m.end()
            else:
                if w[i] == "$":
                    raise ShUnsupported(f"expansion in {w!r}")
                j = w.find("$", i + 1)
                j = len(w) if j < 0 else j
                parts.append(w[i:j].replace('\\"', '"').replace("\\(", "(").replace("\\)", ")"))
                i = j
        return norm(parts)

    # ---- conditions
    def cond(self, p, c):
        c = c.strip()
        # a list of bracket tests joined by && / || (left to right, short-circuit, equal precedence as in bash)
        pieces = re.split(r"\s+(&&|\|\|)\s+(?=\[)", c)
        if len(pieces) > 1 and all(re.match(r"^\[\[? .* \]\]?$", x) for x in pieces[::2]):
            cur = self.cond(p, pieces[0])
            for op, nxt in zip(pieces[1::2], pieces[2::2]):
                new = []
                for q, val in cur:
                    if (op == "&&" and not val) or (op == "||" and val):
                        new.append((q, val))
                    else:
                        new += self.cond(q, nxt)
                cur = new
            return cur
        m = re.match(r"^\[\[? (.*) \]\]?$", c)
        if not m:
            # a command as condition: it runs with errexit suspended; the branch is taken when it succeeds
            if any(ch in c for ch in "|&;()`") or c.split()[0] in ("!", "[", "[["):
                raise ShUnsupported(f"condition {c}")
            saved = p.errexit
            p.errexit = False
            before = len(p.log)
            out = []
            for r in self.simple(p, c):
                failed = len(r.log) > before and r.log[-1][2] == "fail"
                r.errexit = saved
                out.append((r, not failed))
            return out
        t = m.group(1).split()
        if t and t[0] == "!":
            inner = c.replace("! ", "", 1)
            return [(q, not val) for q, val in self.cond(p, inner)]
        if t[0] in ("-f", "-e", "-d") and len(t) == 2:
            b = self.exists(p, self.abspath(p, self.expand(p, t[1])), want_dir=(t[0] == "-d"))
        elif t[0] == "-z" and len(t) == 2:
            v = self.expand(p, t[1])
            cv = conc(v)
            b = z3.BoolVal(cv == "") if cv is not None else zstr(v) == z3.StringVal("")
        elif len(t) == 3 and t[1] in ("=", "==", "!="):
            lft = self.expand(p, t[0])
            r = t[2]
            if r.startswith("*") and r.endswith("*") and len(r) > 2 and c.startswith("[["):
                mid = self.expand(p, r[1:-1])
                lc, mc = conc(lft), conc(mid)
                b = z3.BoolVal(mc in lc) if lc is not None and mc is not None else z3.Contains(zstr(lft), zstr(mid))
            elif r.endswith("*") and c.startswith("[["):
                pre = self.expand(p, r[:-1])
                lc, pc_ = conc(lft), conc(pre)
                b = z3.BoolVal(lc.startswith(pc_)) if lc is not None and pc_ is not None else z3.PrefixOf(zstr(pre), zstr(lft))
            else:
                rv = self.expand(p, r)
                lc, rc = conc(lft), conc(rv)
                b = z3.BoolVal(lc == rc) if lc is not None and rc is not None else zstr(lft) == zstr(rv)
            if t[1] == "!=":
                b = z3.Not(b)
        else:
            raise ShUnsupported(f"condition {c}")
        b = z3.simplify(b)
        out = []
        for val in (True, False):
            if z3.is_true(b) and not val or z3.is_false(b) and val:
                continue
            q = p.clone()
            if not (z3.is_true(b) or z3.is_false(b)):
                q.pc.append(b if val else z3.Not(b))
                if not self.feasible(q):
                    continue
            out.append((q, val))
        return out

    # ---- statements
    def run_block(self, paths, body):
        for st in body:
            nxt = []
            for p in paths:
                if p.exit is not None or p.vars.get("__break"):
                    nxt.append(p)
                    continue
                nxt += self.step(p, st)
            paths = nxt
            if self.deadline is not None and len(paths) > 8:
                import time as _t
                if _t.time() > self.deadline:
                    paths = paths[:8]
                    self.truncated = True
            if len(paths) > self.max_paths:
                # keep exploring a prefix of the path set; the truncation is reported, never hidden
                paths = paths[: self.max_paths]
                self.truncated = True
        return paths

    def builtin_fail(self, p, label, cond_ok, on_ok, text):
        "builtin (cd/mkdir) whose success is decided by a filesystem fact"
        out = []
        cond_ok = z3.simplify(cond_ok)
        if not z3.is_false(cond_ok):
            ok = p.clone()
            if not z3.is_true(cond_ok):
                ok.pc.append(cond_ok)
            if z3.is_true(cond_ok) or self.feasible(ok):
                ok.log.append((ok.inv, label, "ok", text, None))
                on_ok(ok)
                out.append(ok)
        if not z3.is_true(cond_ok):
            bad = p.clone()
            bad.pc.append(z3.Not(cond_ok))
            if self.feasible(bad):
                bad.log.append((bad.inv, label, "fail", text, z3.IntVal(1)))
                if bad.errexit:
                    bad.exit = z3.IntVal(1)
                out.append(bad)
        return out

    def tool_fork(self, p, label, text, effect, need=None):
        """external command: success (needs `need`, applies effect) | failure (status != 0)."""
        k = next(self.counter)
        st = z3.Int(f"st{k}_{label}")
        out = []
        ok = p.clone()
        ok.pc.append(st == 0)
        feasible_ok = True
        if need is not None:
            need = z3.simplify(need)
            if z3.is_false(need):
                feasible_ok = False
            elif not z3.is_true(need):
                ok.pc.append(need)
                feasible_ok = self.feasible(ok)
        if feasible_ok:
            ok.log.append((ok.inv, label, "ok", text, st))
            res = effect(ok)
            out += res if isinstance(res, list) else [ok]
        bad = p.clone()
        bad.pc += [st > 0, st < 256]
        bad.log.append((bad.inv, label, "fail", text, st))
        if bad.errexit:
            bad.exit = st
        out.append(bad)
        return out

    def step(self, p, st):
        if st.kind == "assign":
            v = st.value
            if ("$(" in v and "$((" not in v) or "`" in v or re.search(r"\$\((?!\()", v):
                known = {("DIR", '"$( cd "$( dirname "${BASH_SOURCE[0]}" )" >/dev/null 2>&1 && pwd )"'): ("/DIR",),
                         ("local", "`pwd`"): (p.cwd,)}
                if (st.name, v) not in known:
                    raise ShUnsupported(f"command substitution {st.name}={v}")
                p.vars[st.name] = known[(st.name, v)]
            else:
                p.vars[st.name] = self.expand(p, v)
            return [p]
        if st.kind == "write":
            tgt = self.abspath(p, self.expand(p, st.target))
            p.fs.append((tgt, True, False, ("text", st.target)))
            return [p]
        if st.kind == "if":
            out, pend = [], [p]
            for c, b in st.arms:
                if c is None:
                    out += self.run_block(pend, b)
                    pend = []
                    break
                nxt = []
                for q in pend:
                    for r, val in self.cond(q, c):
                        if val:
                            out += self.run_block([r], b)
                        else:
                            nxt.append(r)
                pend = nxt
            return out + pend
        if st.kind == "getopts":
            paths = [p]
            toks = p.toks
            i = 0
            spec = st.spec
            for tk in toks:
                if tk[0] != "flag":
                    break
                i += 1
                letter, operand = tk[1], tk[2]
                need = (letter + ":") in spec
                known = letter in spec.replace(":", "")
                key = "?" if (not known or (need and operand is None)) else letter
                for q in paths:
                    if q.exit is None:
                        q.vars[st.var] = (key,)
                        if need and operand is not None:
                            q.vars["OPTARG"] = operand
                paths = self.run_block(paths, st.cases[key])
                if key != "?" and not need and operand is not None:
                    raise ShUnsupported("operand given to a flag without argument")
            for q in paths:
                rest = toks[i:]
                q.args = [t[1] if t[0] == "word" else (("-" + t[1]),) for t in rest]
            return paths
        if st.kind == "for":
            # unquoted expansion: split at blanks of the concrete parts (symbolic operands contain no IFS characters: stated assumption)
            val = self.expand(p, st.words)
            words, cur = [], []
            for part in val:
                if isinstance(part, str):
                    pieces = re.split(r"(\s+)", part)
                    for pc_ in pieces:
                        if not pc_:
                            continue
                        if pc_.isspace():
                            if cur:
                                words.append(norm(cur))
                                cur = []
                        else:
                            cur.append(pc_)
                else:
                    cur.append(part)
            if cur:
                words.append(norm(cur))
            if len(words) > 4:
                raise ShUnsupported("for loop over more than 4 words")
            paths = [p]
            done = []
            for wv in words:
                for q in paths:
                    if q.exit is None:
                        q.vars[st.var] = wv
                paths = self.run_block(paths, st.body)
                done += [q for q in paths if q.vars.get("__break") or q.exit is not None]
                paths = [q for q in paths if not q.vars.get("__break") and q.exit is None]
            for q in done:
                q.vars.pop("__break", None)
            return paths + done
        if st.kind == "function":
            self.functions[st.name] = st.body
            return [p]
        if st.kind == "while":
            # bounded unrolling: a path on which the condition can still hold after WHILE_UNROLL iterations is dropped and the
            # run is marked truncated (reported inconclusive, never passed)
            paths, done = [p], []
            for k in range(self.WHILE_UNROLL + 1):
                nxt = []
                for q in paths:
                    for r, val in self.cond(q, st.cond):
                        if not val:
                            done.append(r)
                        elif k == self.WHILE_UNROLL:
                            self.truncated = True
                        else:
                            nxt += self.run_block([r], st.body)
                done += [q for q in nxt if q.vars.get("__break") or q.exit is not None]
                paths = [q for q in nxt if not q.vars.get("__break") and q.exit is None]
                if not paths:
                    break
            for q in done:
                q.vars.pop("__break", None)
            return done
        if st.kind == "andor":
            return self.andor(p, st.text)
        return self.simple(p, st.text)

    def andor(self, p, t):
        """A && B || C ...: left to right; a command that fails as a NON-final member of the list does not trigger errexit
        (bash: 'any command executed in a && or || list except the command following the final && or ||')."""
        parts = re.split(r"\s+(&&|\|\|)\s+", t.replace("2>&1", "\x00"))
        parts = [x.replace("\x00", "2>&1") for x in parts]
        cmds, ops = parts[0::2], parts[1::2]
        saved = p.errexit
        states = [(p, False)]           # (path, status of the list so far is failure)
        for i, c in enumerate(cmds):
            last = i == len(cmds) - 1
            nxt = []
            for q, failed in states:
                if q.exit is not None:
                    nxt.append((q, failed))
                    continue
                if i > 0:
                    op = ops[i - 1]
                    if (op == "&&" and failed) or (op == "||" and not failed):
                        nxt.append((q, failed))       # skipped: status unchanged
                        continue
                q.errexit = saved if last else False
                before = len(q.log)
                for r in self.simple(q, c):
                    f = len(r.log) > before and r.log[-1][2] == "fail"
                    nxt.append((r, f))
            states = nxt
        out = []
        for q, failed in states:
            q.errexit = saved
            out.append(q)
        return out

    def simple(self, p, t):
        t = re.sub(r"\s+2>&1", "", t)
        t = re.sub(r"\s+[12]?>\s*/dev/null", "", t).strip()
        if " | " in t and not t.startswith("echo"):
            return self.pipeline(p, [c.strip() for c in t.split(" | ")])
        w = t.split()
        if t.startswith("{ ") and t.endswith("}"):
            # brace group on one line: its commands in sequence (same shell, same errexit setting)
            inner = [c.strip() for c in re.split(r';(?=(?:[^"]*"[^"]*")*[^"]*$)', t[2:-1].strip().rstrip(";")) if c.strip()]
            paths = [p]
            for c in inner:
                nxt = []
                for q in paths:
                    nxt += [q] if q.exit is not None else self.simple(q, c)
                paths = nxt
            return paths
        if w and w[0] in self.functions:
            # a shell function: its body runs in the caller's shell; errexit is whatever the calling context says (it is
            # suspended when the call is a non-final member of an && / || list or a condition - bash ignores set -e there)
            if len(w) > 1:
                raise ShUnsupported(f"function call with arguments: {t}")
            return self.run_block([p], self.functions[w[0]])
        if w and w[0] == "return":
            raise ShUnsupported("return inside a function")
        if t in ("set -e",):
            p.errexit = True
            return [p]
        if t == "set -o pipefail":
            p.vars["__pipefail"] = ("1",)
            return [p]
        if t in ("set -eo pipefail", "set -euo pipefail"):
            p.errexit = True
            p.vars["__pipefail"] = ("1",)
            return [p]
        if t == "set -x":
            return [p]
        if w[0] == "shift":
            if t != "shift $((OPTIND-1))":
                raise ShUnsupported(t)
            return [p]
        if w[0] == "exit":
            p.exit = z3.IntVal(int(w[1]))
            return [p]
        if t == "break":
            p.vars["__break"] = ("1",)
            return [p]
        if w[0] == "echo" and ">>" in w:
            if w.index(">>") != len(w) - 2:
                raise ShUnsupported(t)
            tgt = self.abspath(p, self.expand(p, w[-1]))
            val = self.expand(p, " ".join(w[1:w.index(">>")]))
            r = self.lookup(p, tgt)
            if r is not None:
                if r[0] and r[2] is not None and r[2][0] == "echo":
                    p.fs.append((tgt, True, False, ("echo", r[2][1] + "\n" + show(val))))
                elif not r[0]:
                    p.fs.append((tgt, True, False, ("echo", show(val))))
                else:
                    p.fs.append((tgt, True, False, ("appended", r[2], show(val))))
                return [p]
            # never touched in this history: it may pre-exist (with unknown content) or not
            out = []
            ex = z3.simplify(self.exists(p, tgt))
            if not z3.is_false(ex):
                a_ = p.clone()
                if not z3.is_true(ex):
                    a_.pc.append(ex)
                if z3.is_true(ex) or self.feasible(a_):
                    a_.fs.append((tgt, True, False, ("appended", ("initial", show(tgt)), show(val))))
                    out.append(a_)
            if not z3.is_true(ex):
                b_ = p.clone()
                b_.pc.append(z3.Not(ex))
                if self.feasible(b_):
                    b_.fs.append((tgt, True, False, ("echo", show(val))))
                    out.append(b_)
            return out
        if w[0] == "echo":
            if ">" in w:
                if w.index(">") != len(w) - 2:
                    raise ShUnsupported(t)
                tgt = self.abspath(p, self.expand(p, w[-1]))
                val = self.expand(p, " ".join(w[1:w.index(">")]))
                p.fs.append((tgt, True, False, ("echo", show(val))))
            return [p]
        if w[0] == "export":
            m = re.match(r"^export (\w+)=(.*)$", t)
            if not m:
                raise ShUnsupported(t)
            p.vars[m.group(1)] = self.expand(p, m.group(2))
            return [p]
        if w[0] == "cd":
            tgt = self.abspath(p, self.expand(p, w[1]))
            c = conc(tgt)
            if c is None:
                raise ShUnsupported("cd to a symbolic path")

            def go(q):
                q.cwd = c
            return self.builtin_fail(p, "cd", self.exists(p, tgt, want_dir=True), go, t)
        if w[0] == "mkdir" and len(w) == 3 and w[1] == "-p":
            tgt = self.abspath(p, self.expand(p, w[2]))
            ex = z3.simplify(self.exists(p, tgt))
            isd = z3.simplify(self.exists(p, tgt, want_dir=True))
            out = []
            # already a directory: nothing happens; absent: created; a file: fails
            for cond_, label, eff in ((isd, "ok", None), (z3.Not(ex), "ok", "create"), (z3.And(ex, z3.Not(isd)), "fail", None)):
                cond_ = z3.simplify(cond_)
                if z3.is_false(cond_):
                    continue
                q = p.clone()
                if not z3.is_true(cond_):
                    q.pc.append(cond_)
                    if not self.feasible(q):
                        continue
                if label == "ok":
                    q.log.append((q.inv, "mkdir", "ok", t, None))
                    if eff:
                        q.fs.append((tgt, True, True, None))
                else:
                    q.log.append((q.inv, "mkdir", "fail", t, z3.IntVal(1)))
                    if q.errexit:
                        q.exit = z3.IntVal(1)
                out.append(q)
            return out
        if w[0] == "mkdir":
            if len(w) != 2:
                raise ShUnsupported(t)
            tgt = self.abspath(p, self.expand(p, w[1]))

            def mk(q):
                q.fs.append((tgt, True, True, None))
            return self.builtin_fail(p, "mkdir", z3.Not(self.exists(p, tgt)), mk, t)
        if w[0] in ("source", "."):
            return self.tool_fork(p, "source", t, lambda q: None)
        if w[0] == "eval":
            if len(w) != 2:
                raise ShUnsupported(t)
            tt = conc(self.expand(p, w[1]))
            if tt is None:
                raise ShUnsupported("eval of a symbolic string")
            # second expansion pass, as eval does
            return self.simple(p, tt)
        if w[0].startswith("$"):
            c0 = conc(self.expand(p, w[0]))
            if c0 is None:
                raise ShUnsupported("symbolic command name")
            w[0] = c0
            t = " ".join(w)
        name = w[0]
        fn = getattr(self, "tool_" + name, None)
        if fn is None:
            raise ShUnsupported(f"unknown command {t!r}")
        return fn(p, w, t)

    def pipeline(self, p, cmds):
        """a | b | c : every command runs; the status is the last command's (or, with pipefail,
        the rightmost non-zero one); set -e only looks at that status."""
        saved = p.errexit
        paths = [p]
        for i, c in enumerate(cmds):
            last = i == len(cmds) - 1
            nxt = []
            for q in paths:
                q.errexit = False
                before = len(q.log)
                for r in self.simple(q, c):
                    failed = len(r.log) > before and r.log[-1][2] == "fail"
                    if not last:
                        if failed:
                            r.vars["__pipe_failed"] = ("1",)
                            r.vars["__pipe_status"] = r.log[-1][4]
                    else:
                        r.errexit = saved
                        pf = r.vars.get("__pipefail") and r.vars.get("__pipe_failed")
                        status_fail = failed or bool(pf)
                        if status_fail and saved and r.exit is None:
                            r.exit = r.log[-1][4] if failed else r.vars.get("__pipe_status")
                        r.vars.pop("__pipe_failed", None)
                        r.vars.pop("__pipe_status", None)
                    nxt.append(r)
            paths = nxt
        for r in paths:
            r.errexit = saved
        return paths

    def tool_tee(self, p, w, t):
        tgt = self.abspath(p, self.expand(p, w[-1]))
        return self.tool_fork(p, "tee", t, lambda q: q.fs.append((tgt, True, False, ("text", "tee"))))

    # ---- tool contracts (documented behaviour of each external command)
    def tool_cmake(self, p, w, t):
        return self.tool_fork(p, "cmake", t, lambda q: None)

    tool_make = lambda self, p, w, t: self.tool_fork(p, "make", t, lambda q: None)        # noqa: E731
    tool_chmod = lambda self, p, w, t: self.tool_fork(p, "chmod", t, lambda q: None)      # noqa: E731
    tool_sudo = lambda self, p, w, t: self.tool_fork(p, "sudo", t, lambda q: None)        # noqa: E731
    tool_scram = lambda self, p, w, t: self.tool_fork(p, "scram", t, lambda q: None)      # noqa: E731

    def tool_mkedanlzr(self, p, w, t):
        d = self.abspath(p, self.expand(p, w[1]))

        def eff(q):
            for sub in ("", "/src", "/plugins", "/python"):
                q.fs.append((norm(d + (sub,)), True, True, None))
        return self.tool_fork(p, "mkedanlzr", t, eff)

    def tool_rm(self, p, w, t):
        tgt = self.abspath(p, self.expand(p, w[-1]))
        return self.tool_fork(p, "rm", t, lambda q: q.fs.append(("rmtree", tgt)))

    def _copy(self, p, label, w, t, tag="copy"):
        src = self.abspath(p, self.expand(p, w[-2]))
        dst = self.abspath(p, self.expand(p, w[-1]))
        base = show(src).rsplit("/", 1)[-1]
        isdir = z3.simplify(self.exists(p, dst, want_dir=True))

        def eff(q):
            outs = []
            for val in (True, False):
                if z3.is_true(isdir) and not val or z3.is_false(isdir) and val:
                    continue
                r = q.clone()
                if not (z3.is_true(isdir) or z3.is_false(isdir)):
                    r.pc.append(isdir if val else z3.Not(isdir))
                    if not self.feasible(r):
                        continue
                target = norm(dst + ("/" + base,)) if val else dst
                r.fs.append((target, True, False, (tag, self.content(r, src))))
                if "ANALYSIS.root" in show(src) or "temp-output.root" in show(src):
                    r.dest[r.inv] = target
                outs.append(r)
            return outs
        return self.tool_fork(p, label, t, eff, need=self.exists(p, src))

    def tool_cp(self, p, w, t):
        return self._copy(p, "cp", w, t)

    def tool_xrdcp(self, p, w, t):
        return self._copy(p, "xrdcp", w, t)

    def tool_python(self, p, w, t):
        "ATLAS EventLoop job: reads ./filelist.txt, writes <submission-dir>/data-ANALYSIS/ANALYSIS.root"
        fl = self.abspath(p, ("filelist.txt",))
        m = re.search(r"--submission-dir=(\S+)", t)
        sub = m.group(1) if m else "submitDir"
        out = self.abspath(p, (f"{sub}/data-ANALYSIS/ANALYSIS.root",))

        def eff(q):
            rid = (q.inv, next(self.counter))
            q.jobs.append(rid)
            q.fs.append((out, True, False, ("job", rid, self.content(q, fl))))
        return self.tool_fork(p, "python", t, eff, need=self.exists(p, fl))

    def tool_cmsRun(self, p, w, t):
        fl = self.abspath(p, ("filelist.txt",))
        outv = p.vars.get("CMS_OUTPUT_FILE")
        if outv is None:
            raise ShUnsupported("cmsRun without CMS_OUTPUT_FILE")
        out = self.abspath(p, outv)

        def eff(q):
            rid = (q.inv, next(self.counter))
            q.jobs.append(rid)
            q.fs.append((out, True, False, ("job", rid, self.content(q, fl))))
        return self.tool_fork(p, "cmsRun", t, eff, need=self.exists(p, fl))

    def tool_root(self, p, w, t):
        m = re.search(r'copy_root_tree\.C\\?\(\\?"(.*?)\\?",\\?"(.*?)\\?"\\?\)', t)
        if not m:
            raise ShUnsupported(t)
        # the words inside were already expanded by eval's second pass? (eval passes the raw text)
        src = self.abspath(p, self.expand(p, m.group(1)))
        dst = self.abspath(p, self.expand(p, m.group(2)))

        def eff(q):
            q.fs.append((dst, True, False, ("convert", self.content(q, src))))
            if show(dst) != "/" + q.cwd.strip("/") + "/temp-output.root":
                q.dest[q.inv] = dst
        return self.tool_fork(p, "root", t, eff, need=self.exists(p, src))


# ------------------------------------------------------------------ driver
def initial_vars(backend):
    if backend == "atlas":
        return {"AnalysisBaseExternals_PLATFORM": ("/PLAT",), "CALIBPATH": ()}
    return {}


def run_history(script_text, backend, history, cvsroot_set=None, budget_s=None):
    """history: list of token lists.  Returns (engine, final paths).  Each path carries
    .exits (one per invocation), .log, .fs, .dest, .jobs."""
    e = Engine(script_text, backend)
    if budget_s is not None:
        import time as _t
        e.deadline = _t.time() + budget_s
    for toks in history:
        for tk in toks:
            for part in (tk[2] or ()) if tk[0] == "flag" else ():
                if isinstance(part, Sym):
                    if part.relative:
                        e.solver.add(z3.Length(part.z) >= 1, z3.Not(z3.PrefixOf(z3.StringVal("/"), part.z)), z3.Not(z3.Contains(part.z, z3.StringVal(":"))),
                                     z3.Not(z3.PrefixOf(z3.StringVal("."), part.z)))
                    elif getattr(part, "url", False):
                        e.solver.add(z3.PrefixOf(z3.StringVal("root://"), part.z))      # a URL: never to be re-based on a directory
                    else:
                        e.solver.add(z3.PrefixOf(z3.StringVal("/"), part.z))
    p0 = Path()
    paths = [p0]
    for inv, toks in enumerate(history):
        nxt = []
        for p in paths:
            if e.deadline is not None:
                import time as _t
                if _t.time() > e.deadline + 2 and nxt:
                    e.truncated = True
                    break
            q = p.clone()
            q.vars = dict(initial_vars(backend))
            if backend != "atlas":
                cv = Sym("CVSROOT")
                q.vars["CVSROOT"] = (cv,)
            q.args, q.cwd, q.exit, q.errexit, q.inv, q.toks = [], "/LOCAL", None, False, inv, toks
            res = e.run_block([q], e.ast)
            for r in res:
                r.exits.append(r.exit if r.exit is not None else z3.IntVal(0))
                nxt.append(r)
        paths = nxt
    return e, paths


def job_of(content):
    "innermost ('job', rid, filelist content) of a content chain, or None"
    while isinstance(content, tuple):
        if content[0] == "job":
            return content
        if content[0] in ("copy", "convert"):
            content = content[1]
        else:
            return None
    return None
