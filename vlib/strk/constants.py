"""Engine C (kernel): the numeric branches of the REAL visit_Constant, translated from its Python
AST (re-read on every run) into z3 obligations:
  * int  : for ALL integers v (unbounded): accepted(v) => the literal str(v) fits the C++ type it is given
  * float: the language of everything float.__repr__ can print, minus what the guard rejects, is included
           in the C++ floating-literal grammar (regex inclusion)
  * bool : both values (exhaustive)
If the function no longer has a recognisable shape the obligations are inconclusive."""
import ast
import inspect
import textwrap
import time

import z3


class ShapeError(Exception):
    pass


def _load():
    from func_adl_xAOD.common.ast_to_cpp_translator import query_ast_visitor
    src = textwrap.dedent(inspect.getsource(query_ast_visitor.visit_Constant))
    fn = ast.parse(src).body[0]
    return fn, src


def _helper(name):
    "AST of a module-level helper function of the translator module (re-read from the current source)"
    import func_adl_xAOD.common.ast_to_cpp_translator as mod
    f = getattr(mod, name, None)
    if f is None or not inspect.isfunction(f):
        raise ShapeError(f"literal text calls {name}, which is not a plain function of the translator module")
    fd = ast.parse(textwrap.dedent(inspect.getsource(f))).body[0]
    body = [st for st in fd.body if not (isinstance(st, ast.Expr) and isinstance(st.value, ast.Constant))]   # drop docstring
    if len(fd.args.args) != 1 or len(body) != 1 or not isinstance(body[0], ast.Return):
        raise ShapeError(f"helper {name} is not `def f(x): return <expr>`")
    return fd.args.args[0].arg, body[0].value


def _zstr(n, env, lit):
    """z3 string term for a python string expression over `str(value)` (== lit) and the names in env.
    Supported: str(value), names, string constants, +, f-strings of names/str(value), `a if c else b`, one-argument helpers."""
    if isinstance(n, ast.Call) and isinstance(n.func, ast.Name) and n.func.id in ("str", "repr") and len(n.args) == 1 \
            and isinstance(n.args[0], ast.Name) and n.args[0].id == "value":
        return lit
    if isinstance(n, ast.Name):
        if n.id in env:
            return env[n.id]
        raise ShapeError(f"unknown name {n.id} in literal text")
    if isinstance(n, ast.Constant) and isinstance(n.value, str):
        return z3.StringVal(n.value)
    if isinstance(n, ast.BinOp) and isinstance(n.op, ast.Add):
        return z3.Concat(_zstr(n.left, env, lit), _zstr(n.right, env, lit))
    if isinstance(n, ast.JoinedStr):
        parts = []
        for v in n.values:
            if isinstance(v, ast.Constant):
                parts.append(z3.StringVal(v.value))
            elif isinstance(v, ast.FormattedValue) and v.conversion == -1 and v.format_spec is None:
                if isinstance(v.value, ast.Name) and v.value.id == "value":
                    parts.append(lit)          # f"{value}" of an int/float is str(value)
                else:
                    parts.append(_zstr(v.value, env, lit))
            else:
                raise ShapeError("format specification in literal text")
        if not parts:
            return z3.StringVal("")
        return parts[0] if len(parts) == 1 else z3.Concat(*parts)
    if isinstance(n, ast.IfExp):
        return z3.If(_zcond(n.test, env, lit), _zstr(n.body, env, lit), _zstr(n.orelse, env, lit))
    if isinstance(n, ast.Call) and isinstance(n.func, ast.Name) and len(n.args) == 1 and not n.keywords:
        arg, body = _helper(n.func.id)
        return _zstr(body, {arg: _zstr(n.args[0], env, lit)}, lit)
    raise ShapeError(f"literal text not understood: {ast.unparse(n)[:80]}")


def _zcond(n, env, lit):
    if isinstance(n, ast.UnaryOp) and isinstance(n.op, ast.Not):
        return z3.Not(_zcond(n.operand, env, lit))
    if isinstance(n, ast.Call) and isinstance(n.func, ast.Attribute) and n.func.attr in ("startswith", "endswith") and len(n.args) == 1:
        a, b = _zstr(n.func.value, env, lit), _zstr(n.args[0], env, lit)
        return z3.PrefixOf(b, a) if n.func.attr == "startswith" else z3.SuffixOf(b, a)
    if isinstance(n, ast.Compare) and len(n.ops) == 1 and isinstance(n.ops[0], (ast.Eq, ast.NotEq, ast.In, ast.NotIn)):
        if isinstance(n.ops[0], (ast.In, ast.NotIn)):
            r = z3.Contains(_zstr(n.comparators[0], env, lit), _zstr(n.left, env, lit))
            return r if isinstance(n.ops[0], ast.In) else z3.Not(r)
        l, r_ = n.left, n.comparators[0]
        if isinstance(l, ast.Subscript) and isinstance(l.slice, ast.Constant) and l.slice.value == 0:
            a = z3.SubString(_zstr(l.value, env, lit), 0, 1)
        else:
            a = _zstr(l, env, lit)
        e = a == _zstr(r_, env, lit)
        return e if isinstance(n.ops[0], ast.Eq) else z3.Not(e)
    if isinstance(n, ast.Compare) and len(n.ops) == 1 and isinstance(n.left, ast.Name) and n.left.id == "value" \
            and isinstance(n.comparators[0], ast.Constant) and n.comparators[0].value == 0 and isinstance(n.ops[0], (ast.Lt, ast.GtE)):
        # value < 0  <=>  the text starts with '-'   (true for ints; for floats -0.0 prints '-0.0' but is not < 0:
        # that case is made explicit by treating the condition as an uninterpreted choice when lit is '-0.0')
        neg = z3.PrefixOf(z3.StringVal("-"), lit)
        strict = z3.And(neg, lit != z3.StringVal("-0.0"))
        return strict if isinstance(n.ops[0], ast.Lt) else z3.Not(strict)
    raise ShapeError(f"condition in literal text not understood: {ast.unparse(n)[:80]}")


def _literal_checks(name, kind, lang, text_ast, value_lang_cpp, t0):
    """Obligations over ALL literal strings `lit` of the python repr language `lang`:
       (a) the emitted text T(lit) is lit itself or lit in one pair of parentheses (value preserved, given repr round-trips);
       (b) T(lit) is in the C++ literal grammar, possibly parenthesised;
       (c) T(lit) does not begin with a sign, so it cannot fuse with an operator written in front of it (a--5, a++5)."""
    out = []
    lit = z3.String("lit")
    T = _zstr(text_ast, {}, lit)
    par = z3.Concat(z3.StringVal("("), lit, z3.StringVal(")"))
    obligations = [
        (f"{kind}: emitted text is the repr, at most parenthesised", z3.And(T != lit, T != par)),
        (f"{kind}: emitted text is a C++ literal", z3.Not(z3.InRe(T, z3.Union(value_lang_cpp, z3.Concat(z3.Re("("), value_lang_cpp, z3.Re(")")))))),
        (f"{kind}: emitted text cannot fuse with a preceding operator", z3.Or(z3.PrefixOf(z3.StringVal("-"), T), z3.PrefixOf(z3.StringVal("+"), T))),
    ]
    for nm, bad in obligations:
        s = z3.Solver()
        s.set("timeout", 20000)
        s.add(z3.InRe(lit, lang), bad)
        r = s.check()
        if r == z3.unsat:
            out.append(dict(name=nm, status="holds", detail=f"text = {ast.unparse(text_ast)}", witness=None, seconds=time.time() - t0))
        elif r == z3.sat:
            out.append(dict(name=nm, status="cex", detail=f"text = {ast.unparse(text_ast)}", witness=s.model()[lit].as_string(), seconds=time.time() - t0, literal_kind=kind))
        else:
            out.append(dict(name=nm, status="inconclusive", detail="solver unknown", witness=None, seconds=time.time() - t0))
    return out


def _branches(fn):
    """{'int': [stmts], 'float': [...], 'bool': [...], 'str': [...]} from the if/elif chain."""
    chain = None
    for st in fn.body:
        if isinstance(st, ast.If):
            chain = st
    if chain is None:
        raise ShapeError("no if-chain over type(value)")
    out = {}
    cur = chain
    while True:
        t = cur.test
        if not (isinstance(t, ast.Compare) and isinstance(t.ops[0], ast.Is) and isinstance(t.left, ast.Call)
                and isinstance(t.left.func, ast.Name) and t.left.func.id == "type" and isinstance(t.comparators[0], ast.Name)):
            raise ShapeError("if-chain test is not `type(value) is T`")
        out[t.comparators[0].id] = cur.body
        if len(cur.orelse) == 1 and isinstance(cur.orelse[0], ast.If):
            cur = cur.orelse[0]
        else:
            out["else"] = cur.orelse
            break
    return out


def _const_int(n):
    "python integer value of a constant expression like 2**31, -(2**31)"
    try:
        return int(eval(compile(ast.Expression(n), "<c>", "eval"), {"__builtins__": {}}, {}))
    except Exception as e:  # noqa: BLE001
        raise ShapeError(f"not a constant integer expression: {ast.unparse(n)}") from e


def _int_cond(n, v):
    "z3 Bool for a python condition over the int `value`"
    if isinstance(n, ast.UnaryOp) and isinstance(n.op, ast.Not):
        return z3.Not(_int_cond(n.operand, v))
    if isinstance(n, ast.BoolOp):
        parts = [_int_cond(x, v) for x in n.values]
        return z3.And(*parts) if isinstance(n.op, ast.And) else z3.Or(*parts)
    if isinstance(n, ast.Compare):
        terms = [n.left] + list(n.comparators)

        def term(t):
            if isinstance(t, ast.Name) and t.id == "value":
                return v
            if isinstance(t, ast.Call) and isinstance(t.func, ast.Name) and t.func.id == "abs" and isinstance(t.args[0], ast.Name):
                return z3.If(v >= 0, v, -v)
            return z3.IntVal(_const_int(t))
        zs = [term(t) for t in terms]
        conj = []
        for a, op, b in zip(zs, n.ops, zs[1:]):
            conj.append({ast.Lt: a < b, ast.LtE: a <= b, ast.Gt: a > b, ast.GtE: a >= b, ast.Eq: a == b, ast.NotEq: a != b}[type(op)])
        return z3.And(*conj)
    raise ShapeError(f"condition not understood: {ast.unparse(n)}")


def _rendering(stmts):
    """(guards, text expr, type name) of one branch: guards = tests of `if <c>: raise`."""
    guards = []
    text = ty = None
    env = {}
    for st in stmts:
        if isinstance(st, ast.If) and all(isinstance(b, ast.Raise) for b in st.body) and not st.orelse:
            guards.append(st.test)
        elif isinstance(st, ast.Assign) and len(st.targets) == 1 and isinstance(st.targets[0], ast.Name):
            env[st.targets[0].id] = st.value
        elif isinstance(st, ast.Expr) and isinstance(st.value, ast.Call) and ast.unparse(st.value.func) == "crep.set_rep":
            cv = st.value.args[1]
            if not (isinstance(cv, ast.Call) and ast.unparse(cv.func) == "crep.cpp_value"):
                raise ShapeError("set_rep argument is not crep.cpp_value(...)")
            text = cv.args[0]
            if isinstance(text, ast.Name) and text.id in env:
                text = env[text.id]
            tt = cv.args[2] if len(cv.args) > 2 else next(k.value for k in cv.keywords if k.arg == "cpp_type")
            if not (isinstance(tt, ast.Call) and ast.unparse(tt.func) == "ctyp.terminal" and isinstance(tt.args[0], ast.Constant)):
                raise ShapeError("type is not ctyp.terminal('<name>')")
            ty = tt.args[0].value
        elif isinstance(st, ast.Raise):
            return guards, None, None
        else:
            raise ShapeError(f"statement not understood: {ast.unparse(st)[:60]}")
    if text is None:
        raise ShapeError("branch does not set a representation")
    return guards, text, ty


CPP_INT_RANGES = {"int": (-2**31, 2**31 - 1), "long": (-2**63, 2**63 - 1), "long long": (-2**63, 2**63 - 1),
                  "unsigned": (0, 2**32 - 1), "short": (-2**15, 2**15 - 1)}


def obligations():
    """list of dict(name, status in holds|cex|inconclusive, detail, witness, seconds)"""
    out = []
    try:
        fn, src = _load()
        br = _branches(fn)
    except ShapeError as e:
        return [dict(name="visit_Constant shape", status="inconclusive", detail=str(e), witness=None, seconds=0.0)]
    # ---- int
    t0 = time.time()
    try:
        guards, text, ty = _rendering(br["int"])
        if ty not in CPP_INT_RANGES:
            raise ShapeError(f"int literal typed {ty!r}")
        v = z3.Int("v")
        s = z3.Solver()
        s.set("timeout", 20000)
        for gd in guards:
            s.add(z3.Not(_int_cond(gd, v)))
        lo, hi = CPP_INT_RANGES[ty]
        s.add(z3.Or(v < lo, v > hi))
        r = s.check()
        if r == z3.unsat:
            out.append(dict(name="int: every accepted integer fits its C++ type", status="holds", detail=f"type {ty}, guards {[ast.unparse(g) for g in guards]}", witness=None, seconds=time.time() - t0))
        elif r == z3.sat:
            out.append(dict(name="int: every accepted integer fits its C++ type", status="cex", detail=f"typed {ty}", witness=s.model()[v].as_long(), seconds=time.time() - t0))
        else:
            out.append(dict(name="int: every accepted integer fits its C++ type", status="inconclusive", detail="solver unknown", witness=None, seconds=time.time() - t0))
        d_ = z3.Range("0", "9")
        nat = z3.Union(z3.Re("0"), z3.Concat(z3.Range("1", "9"), z3.Star(d_)))
        out += _literal_checks("int", "int", z3.Concat(z3.Option(z3.Re("-")), nat), text, z3.Concat(z3.Option(z3.Re("-")), nat), t0)
    except (ShapeError, KeyError) as e:
        out.append(dict(name="int branch", status="inconclusive", detail=str(e), witness=None, seconds=time.time() - t0))
    # ---- float: regex inclusion
    t0 = time.time()
    try:
        guards, text, ty = _rendering(br["float"])
        gsrc = " ".join(ast.unparse(g) for g in guards)
        rejects_nan = "value != value" in gsrc or "isnan" in gsrc
        rejects_inf = ("inf" in gsrc and "-inf" in gsrc) or "isinf" in gsrc or "isfinite" in gsrc
        d = z3.Range("0", "9")
        digits = z3.Plus(d)
        sign = z3.Option(z3.Re("-"))
        mant = z3.Concat(digits, z3.Re("."), digits)
        expo = z3.Concat(z3.Re("e"), z3.Union(z3.Re("+"), z3.Re("-")), digits)
        finite = z3.Concat(sign, z3.Union(mant, z3.Concat(z3.Union(mant, digits), expo)))
        alts = [finite]
        if not rejects_nan:
            alts.append(z3.Re("nan"))
        if not rejects_inf:
            alts += [z3.Re("inf"), z3.Re("-inf")]
        lang = z3.Union(*alts) if len(alts) > 1 else alts[0]
        # C++ floating literal (decimal), optionally preceded by unary minus
        frac = z3.Union(z3.Concat(z3.Star(d), z3.Re("."), digits), z3.Concat(digits, z3.Re(".")))
        cexp = z3.Concat(z3.Union(z3.Re("e"), z3.Re("E")), z3.Option(z3.Union(z3.Re("+"), z3.Re("-"))), digits)
        cpp = z3.Concat(z3.Option(z3.Re("-")), z3.Union(z3.Concat(frac, z3.Option(cexp)), z3.Concat(digits, cexp)))
        out += _literal_checks("float", "float", lang, text, cpp, t0)
        if ty != "double":
            out.append(dict(name="float literal typed double", status="cex", detail=f"typed {ty}", witness=1.5, seconds=0.0))
    except (ShapeError, KeyError) as e:
        out.append(dict(name="float branch", status="inconclusive", detail=str(e), witness=None, seconds=time.time() - t0))
    # ---- bool: exhaustive
    try:
        guards, text, ty = _rendering(br["bool"])
        for val in (True, False):
            got = eval(compile(ast.Expression(text), "<t>", "eval"), {}, {"value": val})
            ok = got == ("true" if val else "false") and ty == "bool" and not guards
            out.append(dict(name=f"bool {val}", status="holds" if ok else "cex", detail=f"{got!r}:{ty}", witness=val, seconds=0.0))
    except (ShapeError, KeyError) as e:
        out.append(dict(name="bool branch", status="inconclusive", detail=str(e), witness=None, seconds=0.0))
    # bool is tested before int?  (bool is a subclass of int, `type(x) is` makes the order irrelevant)
    return out


def replay_int(v):
    "concrete replay of an int witness on the real visitor: returns (text, type) or 'raised'"
    from func_adl_xAOD.atlas.xaod.query_ast_visitor import atlas_xaod_query_ast_visitor
    import func_adl_xAOD.common.cpp_representation as crep
    qv = atlas_xaod_query_ast_visitor()
    node = ast.Constant(value=v)
    try:
        qv.visit_Constant(node)
    except Exception as e:  # noqa: BLE001
        return "raised"
    r = crep.get_rep(node)
    return r.as_cpp(), r.cpp_type().type
