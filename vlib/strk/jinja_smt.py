"""Engine C (kernel): rendering of injected lines, decided on the Python code jinja2 GENERATES for the
real templates.  The generated code (Environment.compile(source, raw=True), with the Environment options
the real executor uses, captured by spying on one real write_cpp_files run) is translated from its AST into
an SMT string term over symbolic line contents; z3 decides that the output equals the template's static
text with every line inserted verbatim, once, in order.  Anything outside the straight-line
`yield const` / `for x in ctxvar` / `yield str(x)` / `yield escape(x)` shape makes the template inconclusive."""
import ast
import re
import tempfile
from pathlib import Path

import jinja2
import z3


class Inconclusive(Exception):
    pass


# ------------------------------------------------------------------ capture of the real plumbing
def capture(backend, metadata, transform_twice=False):
    """Run the REAL executor once on a small query carrying `metadata`; spy on jinja2 to capture the
    Environment keyword arguments and the context dictionary handed to every template.
    Returns dict(env_kwargs, contexts{file: ctx}, rendered{file: text}, template_dir)."""
    import func_adl_xAOD.common.executor as ex
    from ..tv.equiv import with_metadata
    from ..tv.model import DataModel
    from ..tv.translate import make_executor, parse_query, wipe_registries
    seen = {"env_kwargs": None, "contexts": {}, "template_dir": None}
    real_env = jinja2.Environment

    class SpyEnv(real_env):
        def __init__(self, *a, **kw):
            seen["env_kwargs"] = dict(kw)
            super().__init__(*a, **kw)

    orig_copy = ex.executor._copy_template_file

    def spy_copy(self, j2_env, info, template_file, final_dir):
        seen["contexts"][template_file] = dict(info)
        return orig_copy(self, j2_env, info, template_file, final_dir)
    coll = {"atlas": "Jets", "cms_aod": "Muons", "cms_miniaod": "Muons"}[backend]
    dm = DataModel(backend)
    dm.extra_md += list(metadata)
    q = with_metadata(f"Select(EventDataset('ds'), lambda e: e.{coll}('A').Count())", dm)
    wipe_registries()
    exe = make_executor(backend)
    ex.jinja2.Environment = SpyEnv
    ex.executor._copy_template_file = spy_copy
    d = Path(tempfile.mkdtemp(prefix="c14"))
    try:
        if transform_twice:
            exe.apply_ast_transformations(parse_query(q))      # transformed, result dropped, transformed again (a caller that retries)
        a = exe.apply_ast_transformations(parse_query(q))
        exe.write_cpp_files(a, d)
        rendered = {p.name: p.read_text() for p in d.iterdir() if p.is_file()}
    finally:
        ex.jinja2.Environment = real_env
        ex.executor._copy_template_file = orig_copy
        import shutil
        shutil.rmtree(d, ignore_errors=True)
    kw = dict(seen["env_kwargs"] or {})
    loader = kw.pop("loader", None)
    seen["template_dir"] = loader.searchpath[0] if loader is not None else None
    seen["env_kwargs"] = kw
    seen["rendered"] = rendered
    return seen


# ------------------------------------------------------------------ generated code -> structure
def generated_structure(source, env_kwargs):
    """[('const', text) | ('loop', ctxvar, [('const', text) | ('item', how)])] from jinja2's generated code."""
    env = jinja2.Environment(**env_kwargs)
    code = env.compile(source, raw=True)
    mod = ast.parse(code)
    root = next((n for n in mod.body if isinstance(n, ast.FunctionDef) and n.name == "root"), None)
    if root is None:
        raise Inconclusive("no root() in generated code")
    resolved = {}
    out = []

    def item_how(call, loopvar):
        if isinstance(call, ast.Call) and isinstance(call.func, ast.Name) and len(call.args) == 1:
            arg = call.args[0]
            if call.func.id in ("str", "escape") and isinstance(arg, ast.Name) and arg.id == loopvar:
                return call.func.id
            if call.func.id == "str" and isinstance(arg, ast.Call):
                inner = item_how(arg, loopvar)
                if inner:
                    return inner
        raise Inconclusive(f"output expression not understood: {ast.unparse(call)[:80]}")

    filter_names = {}       # t_k -> name of the jinja2 filter it was bound to

    def iter_var(it):
        # (undefined(name='x') if l_0_x is missing else l_0_x)
        if isinstance(it, ast.IfExp) and isinstance(it.orelse, ast.Name) and it.orelse.id in resolved:
            return resolved[it.orelse.id]
        if isinstance(it, ast.Name) and it.id in resolved:
            return resolved[it.id]
        raise Inconclusive(f"loop source not a context variable: {ast.unparse(it)[:80]}")

    def iter_filtered(it):
        "-> (context variable, [filter names, innermost first])"
        fl = []
        while isinstance(it, ast.Call) and isinstance(it.func, ast.Name) and it.func.id in filter_names:
            args = [x for x in it.args if not (isinstance(x, ast.Name) and x.id in ("environment", "context"))
                    and not (isinstance(x, ast.Attribute) and ast.unparse(x) in ("context.eval_ctx",))]
            if len(args) != 1 or it.keywords:
                raise Inconclusive(f"filter with arguments: {ast.unparse(it)[:80]}")
            fl.append(filter_names[it.func.id])
            it = args[0]
        return iter_var(it), list(reversed(fl))
    for st in root.body:
        if isinstance(st, ast.Assign) and isinstance(st.value, ast.Call) and ast.unparse(st.value.func) == "resolve":
            resolved[st.targets[0].id] = st.value.args[0].value
        elif isinstance(st, ast.Try) and len(st.body) == 1 and isinstance(st.body[0], ast.Assign) and isinstance(st.body[0].value, ast.Subscript) \
                and ast.unparse(st.body[0].value.value) == "environment.filters" and isinstance(st.body[0].value.slice, ast.Constant):
            filter_names[st.body[0].targets[0].id] = st.body[0].value.slice.value       # t_1 = environment.filters['unique']
        elif isinstance(st, ast.Assign) and isinstance(st.value, ast.Subscript) and ast.unparse(st.value.value) == "environment.filters" \
                and isinstance(st.value.slice, ast.Constant):
            filter_names[st.targets[0].id] = st.value.slice.value
        elif isinstance(st, ast.Assign) or isinstance(st, ast.Pass) or (isinstance(st, ast.If) and ast.unparse(st.test) == "0"):
            continue
        elif isinstance(st, ast.Expr) and isinstance(st.value, ast.Yield):
            v = st.value.value
            if isinstance(v, ast.Constant) and isinstance(v.value, str):
                out.append(("const", v.value))
            elif isinstance(v, ast.Call) and isinstance(v.func, ast.Name) and v.func.id in ("str", "escape") and isinstance(v.args[0], ast.IfExp):
                out.append(("var", iter_var(v.args[0]), v.func.id))
            else:
                raise Inconclusive(f"top-level output not understood: {ast.unparse(v)[:80]}")
        elif isinstance(st, ast.For):
            if not isinstance(st.target, ast.Name) or st.orelse:
                raise Inconclusive("loop shape")
            var, filters = iter_filtered(st.iter)
            body = []
            for b in st.body:
                if isinstance(b, (ast.Pass, ast.Assign)):
                    continue
                if isinstance(b, ast.Expr) and isinstance(b.value, ast.Yield):
                    v = b.value.value
                    if isinstance(v, ast.Constant) and isinstance(v.value, str):
                        body.append(("const", v.value))
                    else:
                        body.append(("item", item_how(v, st.target.id)))
                else:
                    raise Inconclusive(f"loop body statement not understood: {ast.unparse(b)[:80]}")
            out.append(("loop", var, body, filters) if filters else ("loop", var, body))
        else:
            raise Inconclusive(f"statement not understood: {ast.unparse(st)[:80]}")
    return out


# ------------------------------------------------------------------ expectation from the template SOURCE text
# a filter chain on the loop source (`x in lines|unique`) is accepted and IGNORED here: the expectation is what the property
# demands (every line, once, in order), not what the template's filters make of the lines
FOR_RX = re.compile(r"\{%(-?)\s*for\s+(\w+)\s+in\s+(\w+)(?:\s*\|\s*\w+(?:\([^)%]*\))?)*\s*(-?)%\}(.*?)\{%(-?)\s*endfor\s*(-?)%\}", re.S)


def source_structure(source):
    """Independent of jinja2's compiler: split the template text on its for-blocks; inside a block the only
    directive may be {{var}}.  jinja2's whitespace control ('-' next to a tag delimiter strips the adjacent
    whitespace) is applied by hand.  Any other directive -> Inconclusive."""
    out = []
    pos = 0
    lstrip_next = False
    for m in FOR_RX.finditer(source):
        pre = source[pos:m.start()]
        if lstrip_next:
            pre = pre.lstrip()
        if m.group(1):
            pre = pre.rstrip()
        out.append(("const", pre))
        var, ctx, body = m.group(2), m.group(3), m.group(5)
        if m.group(4):
            body = body.lstrip()
        if m.group(6):
            body = body.rstrip()
        lstrip_next = bool(m.group(7))
        parts = re.split(r"\{\{\s*" + re.escape(var) + r"\s*\}\}", body)
        if len(parts) != 2 or "{{" in parts[0] + parts[1] or "{%" in parts[0] + parts[1]:
            raise Inconclusive("for-body is not `prefix {{x}} suffix`")
        out.append(("loop", ctx, [("const", parts[0]), ("item", "str"), ("const", parts[1])]))
        pos = m.end()
    tail = source[pos:]
    if lstrip_next:
        tail = tail.lstrip()
    out.append(("const", tail))
    rest = "".join(t for k, t, *_ in out if k == "const")
    if "{%" in rest or "{{" in rest or "{#" in rest:
        raise Inconclusive("directive outside the recognised for-blocks")
    # jinja2 drops one trailing newline of the template
    if out and out[-1][0] == "const" and out[-1][1].endswith("\n"):
        out[-1] = ("const", out[-1][1][:-1])
    return out


ESC = [("&", "&amp;"), (">", "&gt;"), ("<", "&lt;"), ("'", "&#39;"), ('"', "&#34;")]
_ESC_FN = z3.Function("markup_escape", z3.StringSort(), z3.StringSort())


class Side:
    "side constraints collected while building a term (abstraction of markupsafe.escape)"
    def __init__(self):
        self.cons = []


def z_item(x, how, side):
    if how == "str":
        return x
    if how == "escape":
        # escape(x) == x exactly when x contains none of & < > ' "  (all that the obligation needs)
        r = _ESC_FN(x)
        special = z3.Or(*[z3.Contains(x, z3.StringVal(a)) for a, _ in ESC])
        side.cons.append(special == (r != x))
        return r
    raise Inconclusive(how)


_UNIQUE_KEY = z3.Function("jinja_unique_key", z3.StringSort(), z3.StringSort())


def apply_filters_sym(items, filters):
    """items: [(guard, term)] -> same after jinja2 list filters.  `unique` keeps the first of the items that have the same key
    (jinja2 compares case-insensitively by default: the key is an uninterpreted function of the string, so equal strings always
    collide and different ones may - a model is replayed on the real jinja2 before it is believed)."""
    for f in filters:
        if f == "unique":
            new = []
            for i, (g, x) in enumerate(items):
                earlier = [z3.And(gj, _UNIQUE_KEY(xj) == _UNIQUE_KEY(x)) for gj, xj in items[:i]]
                new.append((z3.And(g, z3.Not(z3.Or(*earlier))) if earlier else g, x))
            items = new
        elif f == "reverse":
            items = list(reversed(items))
        elif f == "list":
            pass
        else:
            raise Inconclusive(f"filter '{f}' on a loop source is outside the translator's subset")
    return items


def apply_filters_concrete(values, filters):
    for f in filters:
        if f == "unique":
            seen, out = set(), []
            for v in values:
                k = v.lower() if isinstance(v, str) else v
                if k not in seen:
                    seen.add(k)
                    out.append(v)
            values = out
        elif f == "reverse":
            values = list(reversed(values))
        elif f == "list":
            values = list(values)
        else:
            raise Inconclusive(f"filter '{f}'")
    return values


def render_term(struct, ctx, side):
    "ctx: var -> list of z3 string terms.  Returns one z3 string term."
    parts = []
    for p in struct:
        if p[0] == "const":
            if p[1]:
                parts.append(z3.StringVal(p[1]))
        elif p[0] == "loop":
            items = apply_filters_sym([(z3.BoolVal(True), x) for x in ctx.get(p[1], [])], p[3] if len(p) > 3 else [])
            for g, x in items:
                for b in p[2]:
                    if b[0] == "const":
                        if b[1]:
                            parts.append(z3.StringVal(b[1]) if z3.is_true(g) else z3.If(g, z3.StringVal(b[1]), z3.StringVal("")))
                    else:
                        t = z_item(x, b[1], side)
                        parts.append(t if z3.is_true(g) else z3.If(g, t, z3.StringVal("")))
        elif p[0] == "var":
            raise Inconclusive("plain variable output")
    if not parts:
        return z3.StringVal("")
    r = parts[0]
    for t in parts[1:]:
        r = z3.Concat(r, t)
    return r


def render_concrete(struct, ctx):
    out = []
    for p in struct:
        if p[0] == "const":
            out.append(p[1])
        elif p[0] == "loop":
            for x in apply_filters_concrete(list(ctx.get(p[1], [])), p[3] if len(p) > 3 else []):
                for b in p[2]:
                    if b[0] == "const":
                        out.append(b[1])
                    elif b[1] == "str":
                        out.append(str(x))
                    else:
                        s = str(x)
                        for a, bb in ESC:
                            s = s.replace(a, bb)
                        out.append(s)
    return "".join(out)
