"""Engine C (kernel): the name generator cpp_vars.unique_name, translated from its AST (re-read on every run) into z3 strings.
Obligation: two names generated with DIFFERENT counter values are different identifiers, for all base names (column names
end up here) - decided over all sanitised base strings and all pairs of distinct numerals.
Supported shape: an optional sanitising statement (`name = "".join(<char filter> for c in name)`), assignments of string
expressions (constants, +, conditional expressions, `x[-1:].isdigit()`, `x.endswith/startswith`), one counter read through
str(<global>), `return v` - anything else is inconclusive."""
import ast
import inspect
import textwrap
import time

import z3


class ShapeError(Exception):
    pass


def _load():
    import func_adl_xAOD.common.cpp_vars as cv
    fn = ast.parse(textwrap.dedent(inspect.getsource(cv.unique_name))).body[0]
    return fn


DIGIT = z3.Range("0", "9")
IDENT_CHAR = z3.Union(z3.Range("a", "z"), z3.Range("A", "Z"), DIGIT, z3.Re("_"))


def _expr(n, env):
    if isinstance(n, ast.Constant) and isinstance(n.value, str):
        return z3.StringVal(n.value)
    if isinstance(n, ast.Name):
        if n.id in env:
            return env[n.id]
        raise ShapeError(f"unknown name {n.id}")
    if isinstance(n, ast.BinOp) and isinstance(n.op, ast.Add):
        return z3.Concat(_expr(n.left, env), _expr(n.right, env))
    if isinstance(n, ast.IfExp):
        return z3.If(_cond(n.test, env), _expr(n.body, env), _expr(n.orelse, env))
    if isinstance(n, ast.Call) and isinstance(n.func, ast.Name) and n.func.id == "str" and len(n.args) == 1 and isinstance(n.args[0], ast.Name):
        if n.args[0].id in env:
            return env[n.args[0].id]
        raise ShapeError(f"str() of {n.args[0].id}")
    if isinstance(n, ast.JoinedStr):
        parts = []
        for v in n.values:
            if isinstance(v, ast.Constant):
                parts.append(z3.StringVal(v.value))
            elif isinstance(v, ast.FormattedValue) and v.format_spec is None and v.conversion == -1:
                parts.append(_expr(v.value, env))
            else:
                raise ShapeError("format spec")
        return z3.Concat(*parts) if len(parts) > 1 else (parts[0] if parts else z3.StringVal(""))
    raise ShapeError(f"expression not understood: {ast.unparse(n)[:60]}")


def _cond(n, env):
    if isinstance(n, ast.Name) and n.id in env and z3.is_bool(env[n.id]):
        return env[n.id]
    if isinstance(n, ast.UnaryOp) and isinstance(n.op, ast.Not):
        return z3.Not(_cond(n.operand, env))
    if isinstance(n, ast.BoolOp):
        ps = [_cond(x, env) for x in n.values]
        return z3.And(*ps) if isinstance(n.op, ast.And) else z3.Or(*ps)
    if isinstance(n, ast.Call) and isinstance(n.func, ast.Attribute) and n.func.attr == "isdigit" and not n.args:
        tgt = n.func.value
        # x[-1:].isdigit()  /  x[-1].isdigit()  (last character is a digit; the empty string is not)
        if isinstance(tgt, ast.Subscript) and isinstance(tgt.value, ast.Name):
            x = _expr(tgt.value, env)
            sl = tgt.slice
            last = (isinstance(sl, ast.Slice) and sl.upper is None and sl.step is None and isinstance(sl.lower, ast.UnaryOp)
                    and isinstance(sl.lower.operand, ast.Constant) and sl.lower.operand.value == 1) or \
                   (isinstance(sl, ast.UnaryOp) and isinstance(sl.operand, ast.Constant) and sl.operand.value == 1)
            if last:
                return z3.And(z3.Length(x) >= 1, z3.InRe(z3.SubString(x, z3.Length(x) - 1, 1), DIGIT))
        raise ShapeError(f"isdigit() form: {ast.unparse(n)}")
    if isinstance(n, ast.Call) and isinstance(n.func, ast.Attribute) and n.func.attr in ("endswith", "startswith") and len(n.args) == 1:
        a, b = _expr(n.func.value, env), _expr(n.args[0], env)
        return z3.SuffixOf(b, a) if n.func.attr == "endswith" else z3.PrefixOf(b, a)
    raise ShapeError(f"condition not understood: {ast.unparse(n)[:60]}")


def _name_term(fn, base, counter, member):
    args = [a.arg for a in fn.args.args]
    if len(args) != 2:
        raise ShapeError("unique_name(name, is_class_var) expected")
    env = {args[0]: base, args[1]: member}
    counter_names = set()
    for st in fn.body:
        if isinstance(st, ast.Expr) and isinstance(st.value, ast.Constant):
            continue                                    # docstring
        if isinstance(st, ast.Global):
            counter_names |= set(st.names)
            for nm in st.names:
                env[nm] = counter
            continue
        if isinstance(st, ast.Assign) and len(st.targets) == 1 and isinstance(st.targets[0], ast.Name):
            tgt = st.targets[0].id
            v = st.value
            # sanitising statement: "".join(<filter> for c in name): the result ranges over identifier characters
            if tgt == args[0] and isinstance(v, ast.Call) and isinstance(v.func, ast.Attribute) and v.func.attr == "join" \
                    and isinstance(v.func.value, ast.Constant) and v.func.value.value == "":
                continue                                # `base` is constrained to identifier characters by the caller of this function
            env[tgt] = _expr(v, env)
            continue
        if isinstance(st, ast.AugAssign) and isinstance(st.target, ast.Name) and st.target.id in counter_names:
            continue                                    # the counter advances: modelled by "different calls, different numerals"
        if isinstance(st, ast.Return):
            return _expr(st.value, env)
        raise ShapeError(f"statement not understood: {ast.unparse(st)[:60]}")
    raise ShapeError("no return")


def obligations():
    t0 = time.time()
    try:
        fn = _load()
        b1, b2, d1, d2 = z3.String("b1"), z3.String("b2"), z3.String("d1"), z3.String("d2")
        member = z3.Bool("member")
        n1 = _name_term(fn, b1, d1, member)
        n2 = _name_term(fn, b2, d2, member)
    except ShapeError as e:
        return [dict(name="generated names are distinct", status="inconclusive", detail=str(e), witness=None, seconds=time.time() - t0)]
    numeral = z3.Union(z3.Re("0"), z3.Concat(z3.Range("1", "9"), z3.Star(DIGIT)))
    ident = z3.Star(IDENT_CHAR)
    s = z3.Solver()
    s.set("timeout", 30000)
    s.add(z3.InRe(b1, ident), z3.InRe(b2, ident), z3.InRe(d1, numeral), z3.InRe(d2, numeral), d1 != d2)
    s.add(z3.Length(b1) <= 6, z3.Length(b2) <= 6, z3.Length(d1) <= 4, z3.Length(d2) <= 4)
    s.add(n1 == n2)
    r = s.check()
    if r == z3.unsat:
        return [dict(name="generated names are distinct", status="holds", detail="for all base names (<=6 identifier characters) and all pairs of different counter values (<=4 digits)", witness=None, seconds=time.time() - t0)]
    if r == z3.sat:
        m = s.model()
        w = {k: m.eval(v, model_completion=True).as_string() for k, v in (("b1", b1), ("d1", d1), ("b2", b2), ("d2", d2))}
        w["member"] = bool(z3.is_true(m.eval(member, model_completion=True)))
        return [dict(name="generated names are distinct", status="cex", detail="two calls with different counter values give the same identifier", witness=w, seconds=time.time() - t0)]
    return [dict(name="generated names are distinct", status="inconclusive", detail="solver unknown", witness=None, seconds=time.time() - t0)]


def replay(w):
    "concrete replay on the real function: returns (name1, name2)"
    import func_adl_xAOD.common.cpp_vars as cv
    saved = cv.unique_var_index
    try:
        cv.unique_var_index = int(w["d1"])
        a = cv.unique_name(w["b1"], w["member"])
        cv.unique_var_index = int(w["d2"])
        b = cv.unique_name(w["b2"], w["member"])
    finally:
        cv.unique_var_index = saved
    return a, b
