"""Engine C (kernel): the string-literal writer cpp_vars.cpp_string_literal, translated from its AST (re-read on every run)
into linear integer arithmetic over code points, and an *inductive step* discharged by z3:

    for every code point c and every code point c2 (or the end of the string):
        a C++ lexer positioned at the start of  piece(c) ++ piece(c2) ++ '"'   (resp.  piece(c) ++ '"')
        reads exactly one character, it is c, and it has consumed exactly len(piece(c)) source characters.

With the shape fact that the function emits  '"' ++ piece(s[0]) ++ piece(s[1]) ++ ... ++ '"'  (one piece per character, a function
of that character alone - established while translating, otherwise the kernel is inconclusive) this gives, by induction on the
length of s, that the literal denotes exactly s for strings of EVERY length: the lexer's decision to stop after piece(c) looks at
most one source character beyond it, pieces are never empty (that is part of the step), hence that character is the first of
the next piece or the closing quote - the two cases of the step.

Supported shape of the real function (anything else -> ShapeError -> inconclusive, the bounded CrossHair conditions still apply):
    <name> = {<1-char str>: <str>, ...}            tables
    <out> = []
    for ch in value:                                if/elif/else chain over conditions on ch, every leaf  out.append(<piece>)
    return <const> + "".join(<out>) + <const>
conditions: ch in <table|const str>, ch ==/!= const, ord(ch) <cmp> int (chains), isascii(), and/or/not
pieces: ch, const, table[ch], table.get(ch, ch), "fmt" % ord(ch) with %[0][w](o|x|X|d) items, f"..{ord(ch):03o}..", p + q
"""
import ast
import inspect
import itertools
import textwrap
import time

import z3

MAXCP = 0x10FFFF


class ShapeError(Exception):
    pass


def _load():
    import func_adl_xAOD.common.cpp_vars as cv
    return ast.parse(textwrap.dedent(inspect.getsource(cv.cpp_string_literal))).body[0]


# ------------------------------------------------------------------ translation of the loop body
def _const_str(n):
    if isinstance(n, ast.Constant) and isinstance(n.value, str):
        return n.value
    return None


def _is_ord_ch(n, ch):
    return isinstance(n, ast.Call) and isinstance(n.func, ast.Name) and n.func.id == "ord" and len(n.args) == 1 and \
        isinstance(n.args[0], ast.Name) and n.args[0].id == ch


def _int_term(n, ch, c):
    if _is_ord_ch(n, ch):
        return c
    if isinstance(n, ast.Constant) and isinstance(n.value, int) and not isinstance(n.value, bool):
        return z3.IntVal(n.value)
    if isinstance(n, ast.Constant) and isinstance(n.value, str) and len(n.value) == 1:
        return z3.IntVal(ord(n.value))            # single characters compare like their code points
    if isinstance(n, ast.Name) and n.id == ch:
        return c
    raise ShapeError(f"integer expression not understood: {ast.unparse(n)[:60]}")


def _cond(n, ch, c, tables):
    if isinstance(n, ast.BoolOp):
        ps = [_cond(x, ch, c, tables) for x in n.values]
        return z3.And(*ps) if isinstance(n.op, ast.And) else z3.Or(*ps)
    if isinstance(n, ast.UnaryOp) and isinstance(n.op, ast.Not):
        return z3.Not(_cond(n.operand, ch, c, tables))
    if isinstance(n, ast.Call) and isinstance(n.func, ast.Attribute) and isinstance(n.func.value, ast.Name) and n.func.value.id == ch \
            and not n.args and n.func.attr == "isascii":
        return c < 128
    if isinstance(n, ast.Compare):
        terms = [n.left] + list(n.comparators)
        out = []
        for a, op, b in zip(terms, n.ops, terms[1:]):
            if isinstance(op, (ast.In, ast.NotIn)):
                if not (isinstance(a, ast.Name) and a.id == ch):
                    raise ShapeError(f"membership of something other than the character: {ast.unparse(n)[:60]}")
                if isinstance(b, ast.Name) and b.id in tables:
                    keys = list(tables[b.id])
                elif _const_str(b) is not None:
                    keys = list(_const_str(b))
                elif isinstance(b, (ast.Tuple, ast.List, ast.Set)) and all(_const_str(e) is not None and len(_const_str(e)) == 1 for e in b.elts):
                    keys = [_const_str(e) for e in b.elts]
                else:
                    raise ShapeError(f"membership in {ast.unparse(b)[:40]}")
                t = z3.Or(*[c == ord(k) for k in keys]) if keys else z3.BoolVal(False)
                out.append(t if isinstance(op, ast.In) else z3.Not(t))
                continue
            x, y = _int_term(a, ch, c), _int_term(b, ch, c)
            if isinstance(op, ast.Eq):
                out.append(x == y)
            elif isinstance(op, ast.NotEq):
                out.append(x != y)
            elif isinstance(op, ast.Lt):
                out.append(x < y)
            elif isinstance(op, ast.LtE):
                out.append(x <= y)
            elif isinstance(op, ast.Gt):
                out.append(x > y)
            elif isinstance(op, ast.GtE):
                out.append(x >= y)
            else:
                raise ShapeError(f"comparison {ast.unparse(n)[:60]}")
        return z3.And(*out) if len(out) > 1 else out[0]
    raise ShapeError(f"condition not understood: {ast.unparse(n)[:60]}")


def _digits(v, base, upper, width, pad):
    "alternatives (guard, chars) for the text of integer term v >= 0 in `base`, min width `width`, padded with `pad`"
    alts = []
    k = 1
    while True:
        lo, hi = (0 if k == 1 else base ** (k - 1)), base ** k
        g = z3.And(v >= lo, v < hi)
        chars = [z3.IntVal(ord(pad))] * max(0, width - k)
        for i in range(k):
            d = (v / (base ** (k - 1 - i))) % base
            if base <= 10:
                chars.append(48 + d)
            else:
                chars.append(z3.If(d < 10, 48 + d, (55 if upper else 87) + d))
        alts.append((g, chars))
        if hi > MAXCP:
            break
        k += 1
    return alts


def _fmt_item(spec, v):
    "spec like '03o', 'x', '02X', 'd', '' -> alternatives"
    import re
    m = re.fullmatch(r"(0?)(\d*)([oxXd]?)", spec)
    if not m:
        raise ShapeError(f"format spec {spec!r}")
    zero, w, kind = m.groups()
    base = {"o": 8, "x": 16, "X": 16, "d": 10, "": 10}[kind]
    return _digits(v, base, kind == "X", int(w or 0), "0" if zero else " ")


def _concat(a, b):
    return [(z3.And(g1, g2), c1 + c2) for (g1, c1), (g2, c2) in itertools.product(a, b)]


def _lit(s):
    return [(z3.BoolVal(True), [z3.IntVal(ord(x)) for x in s])]


def _piece(n, ch, c, tables):
    "alternatives [(guard, [code terms])] of a piece expression"
    if isinstance(n, ast.Name) and n.id == ch:
        return [(z3.BoolVal(True), [c])]
    if _const_str(n) is not None:
        return _lit(_const_str(n))
    if isinstance(n, ast.Subscript) and isinstance(n.value, ast.Name) and n.value.id in tables and isinstance(n.slice, ast.Name) and n.slice.id == ch:
        return [(c == ord(k), [z3.IntVal(ord(x)) for x in v]) for k, v in tables[n.value.id].items()]
    if isinstance(n, ast.Call) and isinstance(n.func, ast.Attribute) and n.func.attr == "get" and isinstance(n.func.value, ast.Name) \
            and n.func.value.id in tables and len(n.args) == 2 and isinstance(n.args[0], ast.Name) and n.args[0].id == ch:
        t = tables[n.func.value.id]
        miss = z3.And(*[c != ord(k) for k in t]) if t else z3.BoolVal(True)
        return [(c == ord(k), [z3.IntVal(ord(x)) for x in v]) for k, v in t.items()] + \
               [(z3.And(miss, g), cs) for g, cs in _piece(n.args[1], ch, c, tables)]
    if isinstance(n, ast.BinOp) and isinstance(n.op, ast.Add):
        return _concat(_piece(n.left, ch, c, tables), _piece(n.right, ch, c, tables))
    if isinstance(n, ast.BinOp) and isinstance(n.op, ast.Mod) and _const_str(n.left) is not None:
        import re
        fmt = _const_str(n.left)
        arg = n.right
        if isinstance(arg, ast.Tuple) and len(arg.elts) == 1:
            arg = arg.elts[0]
        parts = re.split(r"(%%|%0?\d*[oxXd])", fmt)
        nspec = sum(1 for p in parts if p.startswith("%") and p != "%%")
        if nspec != 1 or "%" in "".join(p for p in parts if not p.startswith("%")):
            raise ShapeError(f"format string {fmt!r}")
        v = _int_term(arg, ch, c)
        alts = _lit("")
        for p in parts:
            if p == "%%":
                alts = _concat(alts, _lit("%"))
            elif p.startswith("%"):
                alts = _concat(alts, _fmt_item(p[1:], v))
            elif p:
                alts = _concat(alts, _lit(p))
        return alts
    if isinstance(n, ast.JoinedStr):
        alts = _lit("")
        for v in n.values:
            if isinstance(v, ast.Constant):
                alts = _concat(alts, _lit(v.value))
            elif isinstance(v, ast.FormattedValue) and v.conversion == -1:
                if v.format_spec is None:
                    if isinstance(v.value, ast.Name) and v.value.id == ch:
                        alts = _concat(alts, [(z3.BoolVal(True), [c])])
                    else:
                        alts = _concat(alts, _fmt_item("", _int_term(v.value, ch, c)))
                else:
                    fs = v.format_spec
                    if not (isinstance(fs, ast.JoinedStr) and len(fs.values) == 1 and isinstance(fs.values[0], ast.Constant)):
                        raise ShapeError("computed format spec")
                    alts = _concat(alts, _fmt_item(fs.values[0].value, _int_term(v.value, ch, c)))
            else:
                raise ShapeError("f-string conversion")
        return alts
    if isinstance(n, ast.Call) and isinstance(n.func, ast.Name) and n.func.id == "chr" and len(n.args) == 1:
        return [(z3.BoolVal(True), [_int_term(n.args[0], ch, c)])]
    raise ShapeError(f"piece not understood: {ast.unparse(n)[:60]}")


def _body(stmts, ch, c, tables, out_name, guard):
    """alternatives of the ONE piece a pass through `stmts` appends under `guard`; a path that appends nothing yields an empty
    piece (the character is dropped), two appends on one path are concatenated."""
    alts = [(guard, [])]
    for st in stmts:
        if isinstance(st, ast.If):
            t = _cond(st.test, ch, c, tables)
            new = []
            for g, cs in alts:
                for g2, cs2 in _body(st.body, ch, c, tables, out_name, z3.And(g, t)):
                    new.append((g2, cs + cs2))
                for g2, cs2 in _body(st.orelse, ch, c, tables, out_name, z3.And(g, z3.Not(t))):
                    new.append((g2, cs + cs2))
            alts = new
        elif isinstance(st, ast.Expr) and isinstance(st.value, ast.Call) and isinstance(st.value.func, ast.Attribute) and \
                st.value.func.attr == "append" and isinstance(st.value.func.value, ast.Name) and st.value.func.value.id == out_name and len(st.value.args) == 1:
            p = _piece(st.value.args[0], ch, c, tables)
            alts = [(z3.And(g, g2), cs + cs2) for (g, cs), (g2, cs2) in itertools.product(alts, p)]
        elif isinstance(st, ast.AugAssign) and isinstance(st.op, ast.Add) and isinstance(st.target, ast.Name) and st.target.id == out_name:
            p = _piece(st.value, ch, c, tables)
            alts = [(z3.And(g, g2), cs + cs2) for (g, cs), (g2, cs2) in itertools.product(alts, p)]
        elif isinstance(st, (ast.Pass,)) or (isinstance(st, ast.Expr) and isinstance(st.value, ast.Constant)):
            continue
        elif isinstance(st, ast.Continue):
            return alts
        else:
            raise ShapeError(f"statement in the loop not understood: {ast.unparse(st)[:60]}")
    return alts


def translate(fn):
    """-> (prefix, suffix, piece) where piece(c) gives the alternatives for a symbolic code point."""
    args = [a.arg for a in fn.args.args]
    if len(args) != 1:
        raise ShapeError("cpp_string_literal(value) expected")
    value = args[0]
    tables = {}
    out_name = None
    out_is_str = False
    loop = None
    ret = None
    for st in fn.body:
        if isinstance(st, ast.Expr) and isinstance(st.value, ast.Constant):
            continue
        if isinstance(st, ast.Assign) and len(st.targets) == 1 and isinstance(st.targets[0], ast.Name):
            t, v = st.targets[0].id, st.value
            if isinstance(v, ast.Dict) and all(_const_str(k) is not None and len(_const_str(k)) == 1 for k in v.keys) and all(_const_str(x) is not None for x in v.values):
                tables[t] = {_const_str(k): _const_str(x) for k, x in zip(v.keys, v.values)}
                continue
            if isinstance(v, ast.List) and not v.elts and loop is None:
                out_name = t
                continue
            if _const_str(v) == "" and loop is None:
                out_name, out_is_str = t, True
                continue
        if isinstance(st, ast.For) and loop is None and isinstance(st.target, ast.Name) and isinstance(st.iter, ast.Name) and st.iter.id == value and not st.orelse:
            loop = st
            continue
        if isinstance(st, ast.Return) and loop is not None:
            ret = st.value
            continue
        raise ShapeError(f"statement not understood: {ast.unparse(st)[:60]}")
    if loop is None or ret is None or out_name is None:
        raise ShapeError("no per-character loop / return")
    # return <const> + "".join(out) + <const>      (or  <const> + out + <const> when out is a string)
    parts = []

    def flat(n):
        if isinstance(n, ast.BinOp) and isinstance(n.op, ast.Add):
            flat(n.left)
            flat(n.right)
        else:
            parts.append(n)
    flat(ret)
    pre, suf, seen = "", "", False
    for p in parts:
        if _const_str(p) is not None:
            if seen:
                suf += _const_str(p)
            else:
                pre += _const_str(p)
        elif not seen and ((isinstance(p, ast.Call) and isinstance(p.func, ast.Attribute) and p.func.attr == "join" and _const_str(p.func.value) == ""
                            and len(p.args) == 1 and isinstance(p.args[0], ast.Name) and p.args[0].id == out_name and not out_is_str)
                           or (out_is_str and isinstance(p, ast.Name) and p.id == out_name)):
            seen = True
        else:
            raise ShapeError(f"return expression not understood: {ast.unparse(ret)[:80]}")
    if not seen:
        raise ShapeError("the pieces do not reach the return value")
    ch = loop.target.id

    def piece(c):
        return _body(loop.body, ch, c, tables, out_name, z3.BoolVal(True))
    return pre, suf, piece


# ------------------------------------------------------------------ the C++ lexer, one character of a narrow string literal
def _isoct(t):
    return z3.And(t >= 48, t <= 55)


def _ishex(t):
    return z3.Or(z3.And(t >= 48, t <= 57), z3.And(t >= 97, t <= 102), z3.And(t >= 65, t <= 70))


def _hexval(t):
    return z3.If(t <= 57, t - 48, z3.If(t >= 97, t - 87, t - 55))


SIMPLE = {"n": 10, "t": 9, "r": 13, "\\": 92, '"': 34, "'": 39, "?": 63, "a": 7, "b": 8, "f": 12, "v": 11}


def lex1(L):
    """L: list of Int terms (source characters; the closing quote is part of it).  -> (ok, code, consumed) as z3 terms:
    ok = one well-formed character was read (not the closing quote, not an ill-formed or out-of-range escape)."""
    F, T = z3.BoolVal(False), z3.BoolVal(True)
    if not L:
        return F, z3.IntVal(-1), z3.IntVal(0)
    t0 = L[0]
    # plain character
    plain_ok = z3.And(t0 != 34, t0 != 92, t0 != 10, t0 != 13)
    res = (plain_ok, t0, z3.IntVal(1))
    if len(L) >= 2:
        t1 = L[1]
        esc_ok, esc_code, esc_n = F, z3.IntVal(-1), z3.IntVal(0)
        for k, v in SIMPLE.items():
            esc_ok, esc_code, esc_n = z3.If(t1 == ord(k), T, esc_ok), z3.If(t1 == ord(k), z3.IntVal(v), esc_code), z3.If(t1 == ord(k), z3.IntVal(2), esc_n)
        # octal: up to three digits, greedy
        o1 = _isoct(t1)
        o2 = z3.And(o1, _isoct(L[2])) if len(L) >= 3 else F
        o3 = z3.And(o2, _isoct(L[3])) if len(L) >= 4 else F
        oval = z3.If(o3, (t1 - 48) * 64 + (L[2] - 48) * 8 + (L[3] - 48) if len(L) >= 4 else 0,
                     z3.If(o2, (t1 - 48) * 8 + (L[2] - 48) if len(L) >= 3 else 0, t1 - 48))
        on = z3.If(o3, 4, z3.If(o2, 3, 2))
        esc_ok = z3.If(o1, oval <= 255, esc_ok)
        esc_code = z3.If(o1, z3.If(oval < 128, oval, -2), esc_code)     # a numeric escape >= 0x80 is one BYTE, not the code point
        esc_n = z3.If(o1, on, esc_n)
        # hex: every following hex digit, at least one; value must fit a char
        isx = t1 == 120
        run = T
        hval = z3.IntVal(0)
        hn = z3.IntVal(2)
        for t in L[2:]:
            run = z3.And(run, _ishex(t))
            hval = z3.If(run, hval * 16 + _hexval(t), hval)
            hn = z3.If(run, hn + 1, hn)
        esc_ok = z3.If(isx, z3.And(hn >= 3, hval <= 255), esc_ok)
        esc_code = z3.If(isx, z3.If(hval < 128, hval, -2), esc_code)
        esc_n = z3.If(isx, hn, esc_n)
        # universal character names: exactly 4 / 8 hex digits
        for letter, nd in (("u", 4), ("U", 8)):
            isu = t1 == ord(letter)
            if len(L) >= 2 + nd:
                okd = z3.And(*[_ishex(t) for t in L[2:2 + nd]])
                uv = z3.IntVal(0)
                for t in L[2:2 + nd]:
                    uv = uv * 16 + _hexval(t)
                # UCNs below 0xA0 other than $ @ ` are ill-formed in C++17; surrogates too
                uok = z3.And(okd, uv <= MAXCP, z3.Or(uv >= 160, uv == 36, uv == 64, uv == 96), z3.Not(z3.And(uv >= 0xD800, uv <= 0xDFFF)))
                esc_ok, esc_code, esc_n = z3.If(isu, uok, esc_ok), z3.If(isu, uv, esc_code), z3.If(isu, z3.IntVal(2 + nd), esc_n)
            else:
                esc_ok = z3.If(isu, F, esc_ok)
        res = (z3.If(t0 == 92, esc_ok, res[0]), z3.If(t0 == 92, esc_code, res[1]), z3.If(t0 == 92, esc_n, res[2]))
    else:
        res = (z3.And(res[0], t0 != 92), res[1], res[2])
    return res


def obligations(timeout_ms=60000):
    t0 = time.time()
    name = "string literal: inductive step of 'the literal denotes exactly s' (every length)"
    try:
        pre, suf, piece = translate(_load())
    except ShapeError as e:
        return [dict(name=name, status="inconclusive", detail=f"shape of cpp_string_literal not supported by the kernel: {e}", witness=None, seconds=time.time() - t0)]
    if pre != '"' or suf != '"':
        return [dict(name=name, status="cex", detail=f"the literal is delimited by {pre!r} ... {suf!r}, not by double quotes", witness={"c": 97, "c2": None}, seconds=time.time() - t0)]
    c, c2 = z3.Int("c"), z3.Int("c2")
    at_end = z3.Bool("at_end")
    s = z3.Solver()
    s.set("timeout", timeout_ms)
    s.add(c >= 0, c <= MAXCP, c2 >= 0, c2 <= MAXCP)
    try:
        A, B = piece(c), piece(c2)
    except ShapeError as e:
        return [dict(name=name, status="inconclusive", detail=f"shape of cpp_string_literal not supported by the kernel: {e}", witness=None, seconds=time.time() - t0)]
    bad = []
    cover = []
    for g1, cs1 in A:
        cover.append(g1)
        # followed by the closing quote
        ok, code, n = lex1(cs1 + [z3.IntVal(34)])
        bad.append(z3.And(at_end, g1, z3.Not(z3.And(ok, code == c, n == len(cs1)))))
        for g2, cs2 in B:
            ok, code, n = lex1(cs1 + cs2 + [z3.IntVal(34)])
            bad.append(z3.And(z3.Not(at_end), g1, g2, z3.Not(z3.And(ok, code == c, n == len(cs1)))))
    bad.append(z3.Not(z3.Or(*cover)))                 # some character takes no path at all
    s.add(z3.Or(*bad))
    r = s.check()
    secs = time.time() - t0
    info = f"{len(A)} piece alternatives; code points 0..0x10FFFF; lexer: simple/octal/hex/UCN escapes, raw newline and quote end the literal"
    if r == z3.unsat:
        # vacuity twin: the lexer model must be able to fail (a raw quote) and the pieces must be reachable
        tw = z3.Solver()
        tw.add(c >= 0, c <= MAXCP)
        ok, code, n = lex1([c, z3.IntVal(34)])
        tw.add(z3.Not(ok))
        if tw.check() != z3.sat:
            return [dict(name=name, status="inconclusive", detail="vacuity twin failed: the lexer model accepts everything", witness=None, seconds=secs)]
        return [dict(name=name, status="holds", detail=info, witness=None, seconds=secs)]
    if r == z3.sat:
        m = s.model()
        w = {"c": m.eval(c, model_completion=True).as_long(),
             "c2": None if z3.is_true(m.eval(at_end, model_completion=True)) else m.eval(c2, model_completion=True).as_long()}
        return [dict(name=name, status="cex", detail="a lexer reading the emitted literal does not get the character back", witness=w, seconds=secs)]
    return [dict(name=name, status="inconclusive", detail="solver unknown", witness=None, seconds=secs)]


def cpp_literal_bytes(lit):
    """bytes denoted by the narrow string literal `lit` (UTF-8 source and execution character sets), None if it is not one
    well-formed literal.  Concrete, used for replay only."""
    if len(lit) < 2 or lit[0] != '"' or lit[-1] != '"':
        return None
    s, out, i = lit[1:-1], bytearray(), 0
    while i < len(s):
        ch = s[i]
        if ch in '"\n\r':
            return None
        if ch != "\\":
            out += ch.encode("utf-8", "surrogatepass")
            i += 1
            continue
        if i + 1 >= len(s):
            return None
        nx = s[i + 1]
        if nx in SIMPLE:
            out.append(SIMPLE[nx])
            i += 2
        elif nx in "01234567":
            j, v = i + 1, 0
            while j < len(s) and j < i + 4 and s[j] in "01234567":
                v, j = v * 8 + int(s[j]), j + 1
            if v > 255:
                return None
            out.append(v)
            i = j
        elif nx == "x":
            j, v = i + 2, 0
            while j < len(s) and s[j] in "0123456789abcdefABCDEF":
                v, j = v * 16 + int(s[j], 16), j + 1
            if j == i + 2 or v > 255:
                return None
            out.append(v)
            i = j
        elif nx in "uU":
            nd = 4 if nx == "u" else 8
            h = s[i + 2:i + 2 + nd]
            if len(h) != nd or any(x not in "0123456789abcdefABCDEF" for x in h):
                return None
            v = int(h, 16)
            if v > MAXCP or 0xD800 <= v <= 0xDFFF or (v < 160 and v not in (36, 64, 96)):
                return None
            out += chr(v).encode("utf-8")
            i += 2 + nd
        else:
            return None
    return bytes(out)


def replay(w, decode=None):
    """concrete replay on the real function, read back by the concrete byte-level lexer above.  Returns (reproduced, text)."""
    decode = lambda lit: cpp_literal_bytes(lit)  # noqa: E731
    import func_adl_xAOD.common.cpp_vars as cv
    s = chr(w["c"]) + (chr(w["c2"]) if w.get("c2") is not None else "")
    tried = []
    for cand in (s, "a" + s, s + "a"):
        try:
            lit = cv.cpp_string_literal(cand)
        except Exception as e:  # noqa: BLE001
            tried.append(f"{cand!r} raises {type(e).__name__}")
            continue
        try:
            back = decode(lit)
        except Exception as e:  # noqa: BLE001
            back = f"<not a literal: {e}>"
        tried.append(f"{cand!r} -> {lit} -> {back!r}")
        if back != cand.encode("utf-8", "surrogatepass"):
            return True, f"cpp_string_literal({cand!r}) = {lit} which a C++ lexer reads as {back!r}"
    return False, "; ".join(tried)
