"""Concrete events (from solver models) and a concrete Python reference interpreter.

Used for replay only: the solver's model is turned into a concrete event, the real
rendered package is compiled against generated stubs and run on it (replay_clang), and
this interpreter computes what the query denotes on the same event in plain Python.
It is written separately from the symbolic reference (ref.py) on purpose.
"""
import ast
import math
import struct
from fractions import Fraction

import z3

from . import mathfn
from .model import TColl, TNum, TObj


def zval(v):
    if z3.is_int_value(v):
        return v.as_long()
    if z3.is_rational_value(v):
        return Fraction(v.numerator_as_long(), v.denominator_as_long())
    if z3.is_true(v):
        return True
    if z3.is_false(v):
        return False
    if z3.is_algebraic_value(v):
        return Fraction(v.approx(20).numerator_as_long(), v.approx(20).denominator_as_long())
    raise ValueError(f"not a value: {v}")


class ConcreteEvent:
    def __init__(self):
        self.store = {}     # (ctype, bank) -> dict(present, n, base)
        self.tables = {}    # logical uf name -> (dict argtuple->value, else)
        self.strings = {}   # str -> id
        self.N = 0

    @staticmethod
    def from_model(event, model):
        ce = ConcreteEvent()
        ce.N = event.N
        ce.strings = dict(event.strings)
        for k, e in event.store.items():
            ce.store[k] = dict(present=bool(zval(model.eval(e["present"], model_completion=True))),
                               n=int(zval(model.eval(e["n"], model_completion=True))), base=e["base"])
        for key, f in event.ufs.items():
            name, dom, rng = key
            entries = {}
            for args, t in event.apps[key].values():
                k = tuple(zval(model.eval(z3.ToReal(a) if z3.is_int(a) else a, model_completion=True)) for a in args)
                entries[k] = zval(model.eval(t, model_completion=True))
            els = False if rng == "Bool" else 0
            ce.tables[f"{name}/{len(dom)}"] = (entries, els, rng)
        return ce

    def lookup(self, name, args):
        key = f"{name}/{len(args)}"
        if key not in self.tables:
            return None
        entries, els, rng = self.tables[key]
        a = tuple(Fraction(x) if not isinstance(x, bool) else x for x in args)
        for k, v in entries.items():
            if len(k) == len(a) and all(Fraction(x) == y for x, y in zip(k, a)):
                return v
        return els

    def to_json(self):
        def enc(x):
            if isinstance(x, Fraction):
                return float(x) if x.denominator != 1 else int(x)
            return x
        return {
            "N": self.N,
            "store": [{"type": k[0], "bank": k[1], **v} for k, v in self.store.items()],
            "tables": {n: {"entries": [[[enc(a) for a in k], enc(v)] for k, v in t[0].items()], "else": enc(t[1]), "range": t[2]}
                       for n, t in self.tables.items()},
            "strings": self.strings,
        }


# ---------------------------------------------------------------------- concrete reference
class Undefined(Exception):
    def __init__(self, kind):
        super().__init__(kind)
        self.kind = kind


class Unspecified(Exception):
    pass


class CObj:
    def __init__(self, cls, oid, null=False):
        self.cls, self.oid, self.null = cls, oid, null


def f32(x):
    try:
        return struct.unpack("f", struct.pack("f", x))[0]
    except OverflowError:
        return math.copysign(math.inf, x)


RANK = {"bool": 0, "int": 1, "float": 2, "double": 3}


def c_round(x):
    return math.floor(x + 0.5) if x >= 0 else math.ceil(x - 0.5)


def c_rint(x):
    return float(round(x))  # python round is half-even


PYMATH = {
    "sin": math.sin, "cos": math.cos, "tan": math.tan, "acos": math.acos, "asin": math.asin, "atan": math.atan,
    "atan2": math.atan2, "sinh": math.sinh, "cosh": math.cosh, "tanh": math.tanh, "asinh": math.asinh,
    "acosh": math.acosh, "atanh": math.atanh, "exp": math.exp, "ldexp": lambda x, n: math.ldexp(x, int(n)),
    "log": math.log, "log10": math.log10, "exp2": lambda x: 2.0 ** x, "expm1": math.expm1,
    "ilogb": lambda x: float(math.frexp(x)[1] - 1), "log1p": math.log1p, "log2": math.log2,
    "pow": lambda x, y: math.pow(x, y), "sqrt": math.sqrt, "cbrt": lambda x: math.copysign(abs(x) ** (1.0 / 3.0), x),
    "hypot": math.hypot, "erf": math.erf, "erfc": math.erfc, "tgamma": math.gamma, "lgamma": math.lgamma,
    "ceil": lambda x: float(math.ceil(x)), "floor": lambda x: float(math.floor(x)), "fmod": math.fmod,
    "trunc": lambda x: float(math.trunc(x)), "round": lambda x: float(c_round(x)), "rint": c_rint,
    "remainder": math.remainder, "copysign": math.copysign, "nextafter": math.nextafter,
    "nexttoward": math.nextafter, "fdim": lambda x, y: max(x - y, 0.0), "fmax": max, "fmin": min,
    "fabs": math.fabs, "fma": lambda x, y, z: x * y + z,
    "TVector2::Phi_mpi_pi": lambda x: (x + math.pi) % (2 * math.pi) - math.pi if not (-math.pi <= x < math.pi) else x,
}


class CRef:
    """Plain-Python evaluation of the query on a concrete event. Values: (kind, number),
    CObj, python lists (sequences), tuples, dicts, str."""

    def __init__(self, ce: ConcreteEvent, dm, patches=()):
        self.ce = ce
        self.dm = dm
        self.patches = set(patches)
        self.col_names = None
        self.tree_name = None

    def num(self, kind, v):
        if kind == "float":
            v = f32(float(v))
        elif kind == "double":
            v = float(v)
        elif kind == "int":
            v = int(v)
        else:
            v = bool(v)
        return (kind, v)

    def table_value(self, name, args, kind):
        v = self.ce.lookup(name, args)
        if v is None:
            v = 0
        return v

    def call_method(self, cls, ms, oid, args):
        a = [oid]
        for x in args:
            if isinstance(x, tuple) and x[0] in RANK:
                a.append(Fraction(x[1]) if not isinstance(x[1], bool) else int(x[1]))
            elif isinstance(x, str):
                a.append(self.ce.strings.get(x, -1))
            elif isinstance(x, tuple) and x[0] == "enumv":
                a.append(self.ce.strings.get("enum:" + x[1], -1))
            elif isinstance(x, CObj):
                a.append(x.oid)
            else:
                raise Unspecified()
        name = f"{cls}.{ms.name}"
        ret = ms.ret
        if isinstance(ret, TNum):
            return self.num(ret.kind, self.table_value(name, a, ret.kind))
        if isinstance(ret, TObj):
            o = self.table_value(name, a, "int")
            null = False
            if ms.nullable and ret.p >= 1:
                null = bool(self.table_value(name + "?null", a, "bool"))
            return CObj(ret.cls, int(o), null)
        if isinstance(ret, TColl):
            return self.coll(name, ret, a)
        raise Unspecified()

    def coll(self, name, ret, a):
        ln = int(self.table_value(name + "#len", a, "int"))
        out = []
        for k in range(max(0, min(ln, self.ce.N))):
            et = ret.elem
            if isinstance(et, TNum):
                out.append(self.num(et.kind, self.table_value(name + "#el", a + [k], et.kind)))
            elif isinstance(et, TObj):
                out.append(CObj(et.cls, int(self.table_value(name + "#el", a + [k], "int"))))
            elif isinstance(et, TColl):
                out.append(self.coll(name + "#el", et, a + [k]))
        return out

    # ---- arithmetic
    def kind2(self, a, b, div=False):
        ka = "int" if a[0] == "bool" else a[0]
        kb = "int" if b[0] == "bool" else b[0]
        k = max(ka, kb, key=lambda x: RANK[x])
        if div and k == "int":
            k = "double"
        return k

    def binop(self, op, a, b):
        if isinstance(op, ast.Pow):
            return self.num("double", math.pow(a[1], b[1]))
        if isinstance(op, ast.Div):
            k = self.kind2(a, b, True)
            if b[1] == 0:
                raise Unspecified()
            if "intdiv_truncates" in self.patches and a[0] in ("int", "bool") and b[0] in ("int", "bool"):
                q = abs(int(a[1])) // abs(int(b[1]))
                return self.num("double", q if (a[1] >= 0) == (b[1] >= 0) else -q)
            return self.num(k, a[1] / b[1])
        k = self.kind2(a, b)
        if isinstance(op, ast.Mod):
            if b[1] <= 0 or a[1] < 0:
                raise Unspecified()
            return self.num(k, a[1] % b[1])
        x, y = a[1], b[1]
        if k == "int":
            x, y = int(x), int(y)
        r = x + y if isinstance(op, ast.Add) else x - y if isinstance(op, ast.Sub) else x * y
        return self.num(k, r)

    def as_seq(self, v):
        if isinstance(v, list):
            return v
        raise Unspecified()

    def call_lambda(self, lam, args, env):
        e2 = dict(env)
        for p, a in zip(lam.args.args, args):
            e2[p.arg] = a
        return self.ev(lam.body, e2)

    def linq(self, name, args, env):
        if name == "EventDataset":
            return ["EVENT"]
        if name == "MetaData":
            return self.ev(args[0], env)
        if name in ("AsROOTTTree", "ResultTTree"):
            src = self.ev(args[0], env)
            names = ast.literal_eval(args[1])
            self.col_names = [names] if isinstance(names, str) else list(names)
            return src
        if name == "Select":
            return [self.call_lambda(args[1], [x], env) for x in self.as_seq(self.ev(args[0], env))]
        if name == "Where":
            return [x for x in self.as_seq(self.ev(args[0], env)) if self.call_lambda(args[1], [x], env)[1]]
        if name == "SelectMany":
            out = []
            for x in self.as_seq(self.ev(args[0], env)):
                out += self.as_seq(self.call_lambda(args[1], [x], env))
            return out
        if name in ("Count", "len"):
            return ("int", len(self.as_seq(self.ev(args[0], env))))
        if name == "Sum":
            acc = ("int", 0)
            for v in self.as_seq(self.ev(args[0], env)):
                acc = self.binop(ast.Add(), acc, v)
            return acc
        if name in ("Min", "Max"):
            s = self.as_seq(self.ev(args[0], env))
            if "minmax_seed0" in self.patches:
                acc = 0.0
                for v in s:
                    acc = max(acc, v[1]) if name == "Max" else min(acc, v[1])
                return ("double", float(acc))
            if not s:
                raise Unspecified()
            best = s[0]
            for v in s[1:]:
                if (v[1] > best[1]) if name == "Max" else (v[1] < best[1]):
                    best = v
            k = max((v[0] for v in s), key=lambda x: RANK["int" if x == "bool" else x])
            return self.num(k, best[1])
        if name == "Aggregate":
            acc = self.ev(args[1], env)
            for v in self.as_seq(self.ev(args[0], env)):
                nxt = self.call_lambda(args[2], [acc, v], env)
                k = self.kind2(acc, nxt)
                acc = self.num(k, nxt[1])
            return acc
        if name == "First":
            s = self.as_seq(self.ev(args[0], env))
            if not s:
                raise Undefined("first_empty")
            return s[0]
        if name == "Range":
            lo, hi = self.ev(args[0], env), self.ev(args[1], env)
            return [("int", i) for i in range(int(lo[1]), int(hi[1]))]
        raise Unspecified()

    def ev(self, n, env):
        if isinstance(n, ast.Call):
            return self.ev_call(n, env)
        if isinstance(n, ast.Name):
            if n.id in env:
                return env[n.id]
            return ("ns", n.id)
        if isinstance(n, ast.Constant):
            v = n.value
            if isinstance(v, bool):
                return ("bool", v)
            if isinstance(v, int):
                return ("int", v)
            if isinstance(v, float):
                return ("double", v)
            if isinstance(v, str):
                return v
            raise Unspecified()
        if isinstance(n, ast.BinOp):
            return self.binop(n.op, self.ev(n.left, env), self.ev(n.right, env))
        if isinstance(n, ast.UnaryOp):
            v = self.ev(n.operand, env)
            if isinstance(n.op, ast.Not):
                return ("bool", not v[1])
            k = "int" if v[0] == "bool" else v[0]
            return self.num(k, -v[1] if isinstance(n.op, ast.USub) else +v[1])
        if isinstance(n, ast.Compare):
            a, b = self.ev(n.left, env), self.ev(n.comparators[0], env)
            def code(v):
                if isinstance(v, tuple) and v[0] == "enumv":
                    return self.ce.strings.get("enum:" + v[1], -1)
                if isinstance(v, str):
                    return ("s", v)
                return v[1]
            x, y = code(a), code(b)
            op = n.ops[0]
            r = {ast.Lt: lambda: x < y, ast.LtE: lambda: x <= y, ast.Gt: lambda: x > y, ast.GtE: lambda: x >= y,
                 ast.Eq: lambda: x == y, ast.NotEq: lambda: x != y}[type(op)]()
            return ("bool", r)
        if isinstance(n, ast.BoolOp):
            if isinstance(n.op, ast.And):
                for v in n.values:
                    if not self.ev(v, env)[1]:
                        return ("bool", False)
                return ("bool", True)
            for v in n.values:
                if self.ev(v, env)[1]:
                    return ("bool", True)
            return ("bool", False)
        if isinstance(n, ast.IfExp):
            c = self.ev(n.test, env)
            v = self.ev(n.body if c[1] else n.orelse, env)
            if isinstance(v, tuple) and v[0] in RANK:
                return self.num("double", v[1])
            return v
        if isinstance(n, (ast.Tuple, ast.List)):
            return ("tuple", [self.ev(e, env) for e in n.elts])
        if isinstance(n, ast.Dict):
            return {k.value: self.ev(v, env) for k, v in zip(n.keys, n.values)}
        if isinstance(n, ast.Subscript):
            v = self.ev(n.value, env)
            if isinstance(v, tuple) and v[0] == "tuple":
                return v[1][n.slice.value]
            if isinstance(v, dict):
                return v[n.slice.value]
            i = self.ev(n.slice, env)
            s = self.as_seq(v)
            if not (0 <= int(i[1]) < len(s)):
                raise Undefined("index")
            return s[int(i[1])]
        if isinstance(n, ast.Attribute):
            return self.attribute(self.ev(n.value, env), n.attr, [])
        raise Unspecified()

    def attribute(self, v, name, args):
        if v == "EVENT":
            spec = self.dm.colls[name]
            key = (spec.container, args[0])
            e = self.ce.store.get(key)
            if e is None or not e["present"]:
                raise Undefined("missing_collection")
            if spec.singleton:
                return CObj(spec.container, e["base"])
            return [CObj(spec.elem_cls, e["base"] + k) for k in range(e["n"])]
        if isinstance(v, tuple) and v[0] == "ns":
            path = v[1] + "." + name
            for full, (ns, values) in self.dm.enums.items():
                if full == path:
                    return ("enum", full, ns, values)
            return ("ns", path)
        if isinstance(v, tuple) and v[0] == "enum":
            return ("enumv", f"{v[2]}.{name}")
        if isinstance(v, CObj):
            if v.null:
                raise Undefined("nullderef")
            ms = self.dm.method(v.cls, name, len(args))
            if name == "getAttributeFloat" and self.dm.backend == "atlas" and len(args) == 1:
                from .model import MethodSpec, TNum
                ms = MethodSpec("getAttribute<float>", TNum("float"), 1)
            return self.call_method(v.cls, ms, v.oid, args)
        if isinstance(v, dict) and name in v:
            return v[name]
        raise Unspecified()

    def ev_call(self, n, env):
        f = n.func
        if isinstance(f, ast.Lambda):
            return self.call_lambda(f, [self.ev(a, env) for a in n.args], env)
        from .ref import LINQ
        if isinstance(f, ast.Name):
            name = f.id
            if name in LINQ or name == "EventDataset":
                return self.linq(name, n.args, env)
            if name == "isNonnull":
                return ("bool", not self.ev(n.args[0], env).null)
            if name == "DeltaR":
                a = [self.ev(x, env)[1] for x in n.args]
                d_eta = a[0] - a[2]
                d_phi = PYMATH["TVector2::Phi_mpi_pi"](a[1] - a[3])
                return ("double", math.sqrt(d_eta * d_eta + d_phi * d_phi))
            for fn in self.dm.cpp_functions:
                if fn["name"] == name and "py_lambda" in fn:
                    return fn["py_lambda"](self, [self.ev(x, env) for x in n.args])
            if name in ("int", "float", "max", "min") and n.args:
                av = [self.ev(x, env) for x in n.args]
                if name == "float" and len(av) == 1:
                    return ("double", float(av[0][1]))
                if name == "int" and len(av) == 1:
                    return ("int", int(av[0][1]))
                if name in ("max", "min") and len(av) == 2:
                    kind = "int" if all(x[0] in ("int", "bool") for x in av) else "double"
                    v = (max if name == "max" else min)(av[0][1], av[1][1])
                    return (kind, int(v) if kind == "int" else float(v))
                raise Unspecified()
            if name in mathfn.DOCUMENTED:
                av = [self.ev(x, env) for x in n.args]
                if name == "abs" and len(av) == 1 and av[0][0] in ("int", "bool"):
                    return ("int", abs(int(av[0][1])))
                a = [x[1] for x in av]
                c = mathfn.canonical(name)
                try:
                    if c in mathfn.CPP_INT_RESULT:
                        return ("int", int(PYMATH[c](*[float(x) for x in a])))
                    return ("double", float(PYMATH[c](*[float(x) for x in a])))
                except (ValueError, OverflowError, ZeroDivisionError):
                    raise Unspecified()
            raise Unspecified()
        if isinstance(f, ast.Attribute):
            if f.attr in LINQ:
                return self.linq(f.attr, [f.value] + list(n.args), env)
            recv = self.ev(f.value, env)
            args = [self.ev(a, env) for a in n.args]
            for fn in self.dm.cpp_functions:
                if fn["name"] == f.attr and "py_lambda" in fn and fn.get("method_object"):
                    return fn["py_lambda"](self, [recv] + args)
            return self.attribute(recv, f.attr, args)
        raise Unspecified()

    def run(self, query_ast):
        """-> ('rows', [ {col: plain nested lists/numbers} ]) | ('undefined', kind) | ('unspecified',)"""
        try:
            top = self.ev(query_ast, {})
            rows = []
            for v in self.as_seq(top):
                rows.append(self.columns(v))
            return ("rows", rows)
        except Undefined as u:
            return ("undefined", u.kind)
        except Unspecified:
            return ("unspecified",)

    def columns(self, v):
        if isinstance(v, dict):
            items = list(v.items())
            if self.col_names is not None:
                items = [(n, val) for n, (_, val) in zip(self.col_names, items)]
        elif isinstance(v, tuple) and v[0] == "tuple":
            names = self.col_names if self.col_names is not None else [f"col{i}" for i in range(len(v[1]))]
            items = list(zip(names, v[1]))
        else:
            names = self.col_names if self.col_names is not None else ["col1"]
            items = [(names[0], v)]
        return {k: plain(val) for k, val in items}


def plain(v):
    if isinstance(v, list):
        return [plain(x) for x in v]
    if isinstance(v, tuple) and v[0] in RANK:
        return v[1]
    if isinstance(v, tuple) and v[0] == "enumv":
        return v[1]
    raise Unspecified()
