"""Parser for the C++ subset the translator emits (one statement per line, braces on
their own lines).  Anything outside the subset becomes ('opaque', text) so that the
symbolic executor can refuse it (never silently accept it)."""
import re


class CxxSyntaxError(Exception):
    pass


TOK = re.compile(
    r"""\s*(?:
      (?P<f>(?:\d+\.\d*(?:[eE][+-]?\d+)?|\.\d+(?:[eE][+-]?\d+)?|\d+[eE][+-]?\d+)[fFlL]?)
    | (?P<n>\d+)[uUlL]*
    | (?P<s>"(?:[^"\\\n]|\\.)*")
    | (?P<c>'(?:[^'\\\n]|\\.)+')
    | (?P<id>[A-Za-z_]\w*(?:\s*::\s*[A-Za-z_]\w*)*)
    | (?P<op>->|<=|>=|==|!=|&&|\|\||<<|>>|\+\+|--|[-+*/%<>!().,&=\[\]?:~|^{};])
    )""",
    re.X,
)


def tokenize(s):
    out = []
    i = 0
    n = len(s)
    while i < n:
        if s[i].isspace():
            i += 1
            continue
        m = TOK.match(s, i)
        if not m or m.end() == i:
            raise CxxSyntaxError(f"cannot tokenise {s[i:i+20]!r}")
        k = m.lastgroup
        v = m.group(k)
        if k == "id":
            v = re.sub(r"\s+", "", v)
        out.append((k, v))
        i = m.end()
    return out


BINP = {"||": 1, "&&": 2, "==": 6, "!=": 6, "<": 7, "<=": 7, ">": 7, ">=": 7,
        "+": 9, "-": 9, "*": 10, "/": 10, "%": 10}

TYPE_KEYWORDS = {"double", "float", "int", "bool", "unsigned", "long", "short", "char", "size_t"}


class P:
    def __init__(self, toks):
        self.t = toks
        self.i = 0

    def peek(self, k=0):
        j = self.i + k
        return self.t[j] if j < len(self.t) else (None, None)

    def eat(self, v=None):
        if self.i >= len(self.t):
            raise CxxSyntaxError(f"unexpected end, wanted {v}")
        k = self.t[self.i]
        self.i += 1
        if v is not None and k[1] != v:
            raise CxxSyntaxError(f"expected {v!r} got {k[1]!r}")
        return k

    def expr(self, minp=0):
        left = self.unary()
        while True:
            k, v = self.peek()
            if k == "op" and v in BINP and BINP[v] >= minp:
                self.eat()
                right = self.expr(BINP[v] + 1)
                left = ("bin", v, left, right)
            elif k == "op" and v == "?" and minp <= 0:
                self.eat()
                a = self.expr(0)
                self.eat(":")
                b = self.expr(0)
                left = ("cond", left, a, b)
            else:
                return left

    def unary(self):
        k, v = self.peek()
        if k == "op" and v in ("++", "--") and self.peek(1)[0] == "id":
            self.eat()
            target = self.postfix(self.primary())
            if target[0] != "id":
                raise CxxSyntaxError("++/-- of a non-variable")
            return ("incdec", v, target, "pre")
        if k == "op" and v in ("+", "-", "!", "*", "&"):
            self.eat()
            return ("un", v, self.unary())
        return self.postfix(self.primary())

    def try_template_args(self):
        """At '<': try to read balanced template args followed by '(' ; returns text or None."""
        j = self.i
        assert self.t[j][1] == "<"
        depth = 0
        parts = []
        while j < len(self.t):
            k, v = self.t[j]
            if v == "<":
                depth += 1
            elif v == ">":
                depth -= 1
            elif v == ">>":
                depth -= 2
            elif k in ("s", "c") or v in (";", "{", "}", "&&", "||", "=="):
                return None
            parts.append(v)
            j += 1
            if depth <= 0:
                break
        if depth != 0:
            return None
        if j < len(self.t) and self.t[j][1] == "(":
            self.i = j
            return "".join(parts)[1:-1]
        return None

    def primary(self):
        k, v = self.eat()
        if k == "f":
            return ("num", "float" if v[-1] in "fF" else "double", v.rstrip("fFlL"))
        if k == "n":
            return ("num", "int", v)
        if k == "s":
            return ("str", v)
        if k == "c":
            return ("chr", v)
        if k == "op" and v == "(":
            # C-style cast "(double)x" is not emitted by the translator; treat (T) as expr
            e = self.expr()
            self.eat(")")
            return ("paren", e)
        if k == "id":
            if v in ("true", "false"):
                return ("num", "bool", v)
            if v == "nullptr":
                return ("num", "int", "0")
            if v in ("static_cast", "dynamic_cast", "reinterpret_cast", "const_cast"):
                self.eat("<")
                depth = 1
                ty = []
                while depth:
                    kk, vv = self.eat()
                    if vv == "<":
                        depth += 1
                    elif vv == ">":
                        depth -= 1
                        if depth == 0:
                            break
                    elif vv == ">>":
                        depth -= 2
                        if depth <= 0:
                            break
                    ty.append(vv if kk != "id" or not ty or ty[-1] in ("<", ",", "::") else " " + vv)
                self.eat("(")
                e = self.expr()
                self.eat(")")
                return ("cast", "".join(ty).strip(), e)
            node = ("id", v)
            if self.peek()[1] == "<":
                targs = self.try_template_args()
                if targs is not None:
                    node = ("tid", v, targs)
            return node
        raise CxxSyntaxError(f"unexpected token {v!r}")

    def args(self):
        self.eat("(")
        a = []
        if self.peek()[1] != ")":
            a.append(self.expr())
            while self.peek()[1] == ",":
                self.eat()
                a.append(self.expr())
        self.eat(")")
        return a

    def postfix(self, e):
        while True:
            k, v = self.peek()
            if k == "op" and v == "(":
                e = ("call", e, self.args())
            elif k == "op" and v in (".", "->"):
                self.eat()
                kk, name = self.eat()
                if kk != "id":
                    raise CxxSyntaxError(f"member name expected, got {name!r}")
                targs = None
                if self.peek()[1] == "<":
                    targs = self.try_template_args()
                e = ("mem", v, e, name, targs)
            elif k == "op" and v == "[":
                self.eat()
                idx = self.expr()
                self.eat("]")
                e = ("index", e, idx)
            elif k == "op" and v in ("++", "--") and e[0] == "id":
                self.eat()
                e = ("incdec", v, e, "post")
            else:
                return e


def parse_expr(s):
    p = P(tokenize(s))
    e = p.expr()
    if p.i != len(p.t):
        raise CxxSyntaxError(f"trailing tokens {p.t[p.i:][:4]} in {s!r}")
    return e


# ---------------------------------------------------------------------- statements
TYPE_RX = r"(?:const\s+)?(?:unsigned\s+)?[A-Za-z_][\w:]*(?:\s*<[^;=()]*>)?(?:\s*::\s*\w+)*(?:\s*[*&]+)?"
DECL = re.compile(
    rf"^(?P<type>{TYPE_RX})\s*(?<![\w>*&])\s*(?P<name>[A-Za-z_]\w*)\s*(?:\((?P<i1>.*)\)|=\s*(?P<i2>.*)|\{{(?P<i3>.*)\}})?;$"
)
DECL2 = re.compile(
    rf"^(?P<type>{TYPE_RX})\s+(?P<name>[A-Za-z_]\w*)\s*(?:\((?P<i1>.*)\)|=\s*(?P<i2>.*))?;$"
)
DECL3 = re.compile(  # "T* name" / "T *name" forms
    rf"^(?P<type>(?:const\s+)?[A-Za-z_][\w:]*(?:\s*<[^;=()]*>)?\s*\*+)\s*(?P<name>[A-Za-z_]\w*)\s*(?:\((?P<i1>.*)\)|=\s*(?P<i2>.*))?;$"
)

NOT_TYPES = {"return", "throw", "delete", "new", "else", "goto", "using", "typedef", "case"}


def norm_type(t):
    t = re.sub(r"\s+", " ", t.strip())
    t = re.sub(r"\s*([<>,*&])\s*", r"\1", t)
    t = re.sub(r"\s*::\s*", "::", t)
    return t


def parse_statement_line(ln):
    """One ';'-terminated line -> statement tuple."""
    if ln.startswith("throw "):
        m = re.match(r'^throw\s+([\w:]+)\s*\((.*)\);$', ln)
        if m:
            return ("throw", m.group(1), m.group(2))
        return ("throw", None, ln)
    if ln.startswith("return"):
        return ("return", ln[6:].rstrip(";").strip())
    if re.match(r"^using\s+namespace\s+[\w:]+\s*;$", ln):
        return ("using", ln)
    if re.match(r"^(ANA_MSG_\w+|ATH_MSG_\w+)\s*\(.*\)\s*;$", ln) or re.match(r"^std::(cout|cerr|clog)\s*<<.*;$", ln):
        return ("using", ln)       # logging: no effect on rows or on the job's outcome
    m = re.match(r"^ANA_CHECK\s*\((.*)\);$", ln)
    if m:
        return ("ana_check", parse_expr(m.group(1)))
    for rx in (DECL2, DECL3):
        m = rx.match(ln)
        if m and m.group("type").split()[0] not in NOT_TYPES and norm_type(m.group("type")) not in NOT_TYPES:
            init = m.group("i1") if m.group("i1") is not None else m.group("i2")
            form = "paren" if m.group("i1") is not None else ("eq" if m.group("i2") is not None else None)
            try:
                ie = parse_expr(init) if init is not None and init.strip() != "" else None
            except CxxSyntaxError:
                return ("opaque", ln)
            return ("decl", norm_type(m.group("type")), m.group("name"), ie, form)
    if not ln.endswith(";"):
        return ("opaque", ln)
    body = ln[:-1]
    # assignment (top-level '=' that is not part of ==, <=, >=, !=)
    depth = 0
    instr = False
    for i, ch in enumerate(body):
        if ch == '"' and (i == 0 or body[i - 1] != "\\"):
            instr = not instr
        if instr:
            continue
        if ch in "([":
            depth += 1
        elif ch in ")]":
            depth -= 1
        elif ch == "=" and depth == 0:
            prev = body[i - 1] if i else ""
            nxt = body[i + 1] if i + 1 < len(body) else ""
            if prev in "=!<>+-*/%&|^" or nxt == "=":
                continue
            try:
                return ("assign", parse_expr(body[:i]), parse_expr(body[i + 1:]))
            except CxxSyntaxError:
                return ("opaque", ln)
    try:
        return ("expr", parse_expr(body))
    except CxxSyntaxError:
        return ("opaque", ln)


def _single_line_if(ln):
    "('cond text', 'statement;') for `if (cond) statement;`, else None"
    if not ln.startswith("if (") or not ln.endswith(";"):
        return None
    depth, instr = 0, False
    for k in range(3, len(ln)):
        ch = ln[k]
        if ch == '"' and ln[k - 1] != "\\":
            instr = not instr
        if instr:
            continue
        if ch == "(":
            depth += 1
        elif ch == ")":
            depth -= 1
            if depth == 0:
                rest = ln[k + 1:].strip()
                return (ln[4:k], rest) if rest and not rest.startswith("{") else None
    return None


def parse_block(lines, i=0):
    """lines: stripped non-empty lines starting at a '{'. Returns (('block', decls+stmts), next_i)."""
    if lines[i] != "{":
        raise CxxSyntaxError(f"expected '{{' got {lines[i]!r}")
    i += 1
    body = []
    while True:
        if i >= len(lines):
            raise CxxSyntaxError("unterminated block")
        ln = lines[i]
        if ln == "}":
            return ("block", body), i + 1
        if ln == "{":
            b, i = parse_block(lines, i)
            body.append(b)
            continue
        m = re.match(r"^for \(auto &&(\w+) : (.*)\)$", ln)
        if m:
            b, i = parse_block(lines, i + 1)
            body.append(("for", m.group(1), parse_expr(m.group(2)), b))
            continue
        one = _single_line_if(ln)
        if one is not None:
            # `if (cond) statement;` on one line: a block with that one statement
            body.append(("if", parse_expr(one[0]), ("block", [parse_statement_line(one[1])]), None))
            i += 1
            continue
        m = re.match(r"^if \((.*)\)$", ln)
        if m:
            cond = parse_expr(m.group(1))
            b, i = parse_block(lines, i + 1)
            els = None
            if i < len(lines) and lines[i] == "else":
                els, i = parse_block(lines, i + 1)
            body.append(("if", cond, b, els))
            continue
        if ln == "do":
            # do { ... } while (false);  - the idiom that makes a macro body one statement: a plain block
            b, j = parse_block(lines, i + 1)
            if j < len(lines) and re.match(r"^while\s*\(\s*(false|0)\s*\)\s*;?$", lines[j]):
                body.append(b)
                i = j + 1
                continue
            raise CxxSyntaxError("do-loop other than do { } while (false)")
        if ln == "else":
            raise CxxSyntaxError("else without if")
        if ln == "try":
            tb, i = parse_block(lines, i + 1)
            handlers = []
            while i < len(lines) and lines[i].startswith("catch"):
                mm = re.match(r"^catch\s*\((.*)\)$", lines[i])
                if not mm:
                    raise CxxSyntaxError(f"catch clause not understood: {lines[i]!r}")
                hb, i = parse_block(lines, i + 1)
                handlers.append((mm.group(1).strip(), hb))
            if not handlers:
                raise CxxSyntaxError("try without catch")
            body.append(("try", tb, handlers))
            continue
        i += 1
        body.append(parse_statement_line(ln))


def normalize_static(text):
    "static template text -> stripped lines with every brace on a line of its own (outside string literals)"
    out, cur = [], []
    instr = False
    prev = ""
    for ch in text:
        if ch == '"' and prev != "\\":
            instr = not instr
        if not instr and ch in "{}":
            if "".join(cur).strip():
                out.append("".join(cur).strip())
            cur = []
            out.append(ch)
        elif ch == "\n" and not instr:
            if "".join(cur).strip():
                out.append("".join(cur).strip())
            cur = []
        else:
            cur.append(ch)
        prev = ch
    if "".join(cur).strip():
        out.append("".join(cur).strip())
    return out


MACRO_RX = re.compile(r"^[ \t]*#[ \t]*define[ \t]+(\w+)\(([^)]*)\)[ \t]*((?:.*\\\n)*.*)$", re.M)


def collect_macros(text):
    "function-like macros defined in a rendered file: name -> (parameter names, body text with continuations joined)"
    out = {}
    for m in MACRO_RX.finditer(text):
        body = re.sub(r"\\\n", "\n", m.group(3))
        out[m.group(1)] = ([a.strip() for a in m.group(2).split(",") if a.strip()], body)
    return out


def _split_args(text):
    args, cur, depth, instr = [], [], 0, False
    for i, ch in enumerate(text):
        if ch == '"' and (i == 0 or text[i - 1] != "\\"):
            instr = not instr
        if not instr:
            if ch in "(<[":
                depth += 1
            elif ch in ")>]":
                depth -= 1
            elif ch == "," and depth == 0:
                args.append("".join(cur).strip())
                cur = []
                continue
        cur.append(ch)
    if "".join(cur).strip():
        args.append("".join(cur).strip())
    return args


def expand_macros(lines, macros):
    """Statement-level uses `NAME (args);` of the file's own function-like macros are replaced by the macro body with the
    parameters substituted (whole words), split into the usual one-statement / one-brace lines."""
    if not macros:
        return lines
    out = []
    for ln in lines:
        m = re.match(r"^(\w+)\s*\((.*)\)\s*;$", ln.strip())
        if m and m.group(1) in macros:
            params, body = macros[m.group(1)]
            args = _split_args(m.group(2))
            if len(args) == len(params):
                for p_, a in zip(params, args):
                    body = re.sub(rf"\b{re.escape(p_)}\b", lambda _m, a=a: a, body)
                out += [x for x in normalize_static(body)]
                continue
        out.append(ln)
    return out


def parse_code_lines(raw_lines, macros=None):
    raw_lines = expand_macros(list(raw_lines), macros or {})
    lines = [ln.strip() for ln in raw_lines]
    lines = [ln for ln in lines if ln != ""]
    if not lines:
        return ("block", [])
    b, i = parse_block(lines, 0)
    if i != len(lines):
        raise CxxSyntaxError(f"trailing lines after top block: {lines[i:][:3]}")
    return b


def parse_class_decl(lines):
    "class_decl slot lines -> [(type, name)]"
    out = []
    for ln in lines:
        ln = ln.strip()
        if not ln:
            continue
        st = parse_statement_line(ln)
        if st[0] != "decl" or st[3] is not None:
            raise CxxSyntaxError(f"class member declaration not understood: {ln!r}")
        out.append((st[1], st[2]))
    return out
