"""Obligations of engine A: build both sides for one program and discharge with z3."""
import ast
import time
import traceback
from dataclasses import dataclass, field
from typing import Dict, List, Optional

import re

import z3

from . import cxx, frontend
from .model import CollV, Ctx, DataModel, Event, Num, ObjV, EnumV, TColl, TNum, real
from .ref import Ref, RefUnsupported, RSeq, shape
from .symexec import And, Exec, IllTyped, Not, Or, Unsupported, count, TRUE, FALSE
from .translate import Package, TranslationRaised, translate


@dataclass
class Program:
    query: str                 # python source text of the query AST (with MetaData calls)
    backend: str = "atlas"
    dm: Optional[DataModel] = None
    label: str = ""
    tags: tuple = ()
    src: str = ""              # the query without the MetaData wrappers (for display)

    def datamodel(self):
        return self.dm if self.dm is not None else DataModel(self.backend)


def with_metadata(query_src, dm: DataModel):
    """Wrap the EventDataset(...) source in MetaData calls carrying the data model's declarations."""
    mds = dm.metadata_dicts()
    if not mds:
        return query_src
    tree = ast.parse(query_src, mode="eval")

    class T(ast.NodeTransformer):
        done = False

        def visit_Call(self, node):
            self.generic_visit(node)
            if isinstance(node.func, ast.Name) and node.func.id == "EventDataset" and not self.done:
                self.done = True
                cur = node
                for d in mds:
                    d = {k: v for k, v in d.items() if k not in ("ref_lambda", "py_lambda")}
                    cur = ast.Call(func=ast.Name(id="MetaData", ctx=ast.Load()),
                                   args=[cur, ast.parse(repr(d), mode="eval").body], keywords=[])
                return cur
            return node

    t = T().visit(tree)
    ast.fix_missing_locations(t)
    return ast.unparse(t)


# ------------------------------------------------------------------ equality of filtered sequences
def slots_of(v):
    if isinstance(v, (CollV, RSeq)):
        return v.slots
    return None


def val_eq(a, b):
    sa, sb = slots_of(a), slots_of(b)
    if sa is not None or sb is not None:
        if sa is None or sb is None:
            return FALSE
        return seq_eq(sa, sb, val_eq)
    if isinstance(a, Num) and isinstance(b, Num):
        if a.kind == "bool" and b.kind == "bool":
            return a.t == b.t
        return real(a) == real(b)
    if isinstance(a, EnumV) and isinstance(b, EnumV):
        return z3.BoolVal(a.name == b.name)
    if isinstance(a, EnumV) and isinstance(b, Num) or isinstance(b, EnumV) and isinstance(a, Num):
        return FALSE
    return FALSE


def seq_eq(A, B, eq):
    "Equality of the filtered sequences denoted by guarded lists A and B."
    conj = [count(A) == count(B)]
    pa = z3.IntVal(0)
    prefA = []
    for g, _ in A:
        prefA.append(pa)
        pa = pa + z3.If(g, 1, 0)
    pb = z3.IntVal(0)
    prefB = []
    for g, _ in B:
        prefB.append(pb)
        pb = pb + z3.If(g, 1, 0)
    for i, (ga, va) in enumerate(A):
        if z3.is_false(ga):
            continue
        for j, (gb, vb) in enumerate(B):
            if z3.is_false(gb):
                continue
            conj.append(z3.Implies(And(ga, gb, prefA[i] == prefB[j]), eq(va, vb)))
    return z3.And(*conj) if len(conj) > 1 else conj[0]


def row_eq(cols_cpp: Dict[str, object], cols_ref: Dict[str, object]):
    if list(cols_cpp.keys()) != list(cols_ref.keys()):
        # compare by name where possible; schema obligation reports the mismatch itself
        common = [k for k in cols_ref if k in cols_cpp]
        if len(common) != len(cols_ref):
            return FALSE
    return And(*[val_eq(cols_cpp[k], cols_ref[k]) for k in cols_ref])


# ------------------------------------------------------------------ encoding one program
# statements the per-event function of the templates may end with (frozen): returning success to the framework
EPILOGUE_OK = (r"return\s+StatusCode::SUCCESS\s*;", r"return\s*;")


class Encoded:
    """Both sides of one program over one symbolic event."""

    @staticmethod
    def _per_event_lines(main):
        """The WHOLE body of the per-event function: static template text before the query-code slot, the slot's lines, static
        text after it (comments removed; a final 'return StatusCode::SUCCESS;' is the known epilogue).  Template text that wraps
        the slot (a try/catch, a condition, extra statements) is therefore part of what is executed symbolically."""
        ctx = (main.get("__context__") or {}).get("query_code")
        code = list(main["query_code"])
        if not ctx:
            return code
        pre = cxx.normalize_static(ctx["prefix"])
        suf_text = ctx["suffix"]
        for rx in EPILOGUE_OK:
            suf_text = re.sub(rx + r"\s*$", "", suf_text.rstrip())
        suf = cxx.normalize_static(suf_text)
        if not pre and not suf:
            return code
        return ["{"] + pre + code + suf + ["}"]

    def __init__(self, prog: Program, pkg: Package, N: int, patches=(), member_pre="empty", tag="",
                 event=None, skip_ref=False):
        self.prog = prog
        self.pkg = pkg
        self.N = N
        dm = prog.datamodel()
        self.dm = dm
        self.ctx = Ctx()
        self.event = event or Event(dm, N)
        if "wideint" in prog.tags:
            # programs whose only integer arithmetic is `**`: integers range over the whole 32-bit int and the C++ side's
            # int +,-,* wrap (two's complement, what the machine does on overflow); python integers do not
            self.event.int_bound = (1 << 31) - 1
            patches = tuple(patches) + ("wide_int",)
        self.slots = frontend.package_slots(pkg)
        main = self.slots["query.cxx" if pkg.backend == "atlas" else "Analyzer.cc"]
        hdr = self.slots["query.h"] if pkg.backend == "atlas" else main
        self.class_decl = cxx.parse_class_decl(hdr["class_decl"])
        members = list(self.class_decl)
        if pkg.backend != "atlas":
            members = [("TTree*", "myTree")] + members
        self.book_ast = cxx.parse_code_lines(main["book_code"])
        self.macros = cxx.collect_macros(pkg.files.get("query.cxx" if pkg.backend == "atlas" else "Analyzer.cc", ""))
        self.query_ast = cxx.parse_code_lines(self._per_event_lines(main), self.macros)
        self.includes = list(main["body_include_files"])
        self.exec = Exec(self.event, dm, members, self.ctx, tag=tag, member_pre=member_pre, patches=patches)
        # booking (constructor / initialize): executed once, concretely guarded
        self.exec.run_block(self.book_ast, TRUE)
        self.book_faults = list(self.exec.faults)
        self.exec.faults = []
        self.exec.alive = TRUE
        self.exec.run_block(self.query_ast, TRUE)
        self.ref = None
        self.ref_rows = None
        self.ref_schema = None
        if not skip_ref:
            self.ref = Ref(self.event, dm, self.ctx, patches=patches)
            q = ast.parse(prog.query, mode="eval").body
            self.ref_rows, self.ref_schema = self.ref.run(q)

    # -- premises
    def base(self, all_present=True):
        p = list(self.event.constraints()) + self.ctx.axioms() + list(self.exec.assumes)
        if self.ref is not None:
            p += list(self.ref.assumes)
        if all_present:
            p += [e["present"] for e in self.event.store.values()]
        # de-duplicate
        seen, out = set(), []
        for c in p:
            i = c.get_id()
            if i not in seen:
                seen.add(i)
                out.append(c)
        return out

    def ref_defined(self):
        return Not(Or(*[g for g, _ in self.ref.undef])) if self.ref.undef else TRUE

    def ref_specified(self):
        return Not(Or(*self.ref.unspec)) if self.ref.unspec else TRUE

    def cpp_fault(self, kinds=None):
        fs = [g for g, k, _ in self.exec.faults if kinds is None or k in kinds]
        return Or(*fs) if fs else FALSE

    def cpp_rows(self):
        return [(g, cols) for g, t, cols in self.exec.rows if t == self.pkg.treename]

    def rows_equal(self):
        A = self.cpp_rows()
        B = self.ref_rows
        return seq_eq(A, B, row_eq)


LOUD = ("throw", "status", "out_of_range")
SILENT = ("nullderef", "ub_index")


@dataclass
class Verdict:
    name: str
    status: str              # holds | cex | inconclusive | skipped
    detail: str = ""
    model: object = None
    seconds: float = 0.0


def check_sat(premises, negated_claim, timeout_ms):
    s = z3.Solver()
    s.set("timeout", timeout_ms)
    for p in premises:
        s.add(p)
    s.add(negated_claim)
    t0 = time.time()
    r = s.check()
    dt = time.time() - t0
    if r == z3.sat:
        return "sat", s.model(), dt, s
    if r == z3.unsat:
        return "unsat", None, dt, s
    return "unknown", None, dt, s


def discharge(name, premises, negated_claim, timeout_ms):
    r, m, dt, _ = check_sat(premises, negated_claim, timeout_ms)
    if r == "unsat":
        return Verdict(name, "holds", seconds=dt)
    if r == "sat":
        return Verdict(name, "cex", model=m, seconds=dt)
    return Verdict(name, "inconclusive", "solver returned unknown/timeout", seconds=dt)


def schema_of_cpp(enc: Encoded):
    """[(branch, depth, elem kind or type text)] in booking order for the result tree."""
    out = []
    members = dict((n, t) for t, n in enc.class_decl)
    for br, member in enc.exec.trees.get(enc.pkg.treename, []):
        t = enc.dm.parse_cpp_type(members[member])
        d = 0
        while isinstance(t, TColl):
            d += 1
            t = t.elem
        out.append((br, d, t.kind if isinstance(t, TNum) else str(t), member))
    return out


KIND_OK = {"int": ("int",), "bool": ("bool",), "float": ("float", "double"), "double": ("double",), None: ("int", "bool", "float", "double")}
