"""Front end of engine A: recover the slot contents of a rendered package from the
files on disk, by matching them against the *current* jinja2 template's static text.

The template is parsed with jinja2's own parser into static pieces and `for x in VAR`
loops whose body is `prefix {{x}} suffix`.  The rendered file must be exactly
    static0 (prefix line suffix)* static1 ...
which (a) proves the static text was not disturbed and no directive was left
unrendered in it, and (b) yields each slot's lines *as rendered*.
"""
import os
import re
import sys

import jinja2
from jinja2 import nodes

from .translate import TEMPLATE_DIR


class FrontEndError(Exception):
    "Rendered file is not static+slots of its template (C02 front-end fact)."


def find_template_dir(backend):
    rel = TEMPLATE_DIR[backend]
    for d in [os.environ.get("VERIF_REPO", "/repo")] + sys.path:
        c = os.path.join(d, rel)
        if os.path.isdir(c):
            return c
    raise FrontEndError(f"template dir for {backend} not found")


class TemplateShape:
    """pieces: list of ('static', text) | ('loop', var, prefix, suffix, filterinfo)
    | ('var', name)"""

    def __init__(self, source):
        env = jinja2.Environment()
        tree = env.parse(source)
        self.pieces = []
        self.unsupported = []
        for n in tree.body:
            self._top(n)

    def _top(self, n):
        if isinstance(n, nodes.Output):
            for c in n.nodes:
                if isinstance(c, nodes.TemplateData):
                    self.pieces.append(("static", c.data))
                elif isinstance(c, nodes.Name):
                    self.pieces.append(("var", c.name))
                else:
                    self.unsupported.append(type(c).__name__)
        elif isinstance(n, nodes.For):
            if not (isinstance(n.target, nodes.Name) and isinstance(n.iter, nodes.Name)
                    and not n.else_ and n.test is None and not n.recursive):
                self.unsupported.append("For(shape)")
                return
            prefix, suffix, seen = "", "", False
            ok = True
            for b in n.body:
                if not isinstance(b, nodes.Output):
                    ok = False
                    break
                for c in b.nodes:
                    if isinstance(c, nodes.TemplateData):
                        if seen:
                            suffix += c.data
                        else:
                            prefix += c.data
                    elif isinstance(c, nodes.Name) and c.name == n.target.name and not seen:
                        seen = True
                    else:
                        ok = False
            if not ok or not seen:
                self.unsupported.append("For(body)")
                return
            self.pieces.append(("loop", n.iter.name, prefix, suffix))
        else:
            self.unsupported.append(type(n).__name__)
        # merge adjacent statics
        merged = []
        for p in self.pieces:
            if merged and p[0] == "static" and merged[-1][0] == "static":
                merged[-1] = ("static", merged[-1][1] + p[1])
            else:
                merged.append(p)
        self.pieces = merged

    def regex(self):
        out = []
        names = []
        for i, p in enumerate(self.pieces):
            if p[0] == "static":
                out.append(re.escape(p[1]))
            elif p[0] == "loop":
                out.append(f"(?P<s{i}>(?:{re.escape(p[2])}.*?{re.escape(p[3])})*?)")
                names.append((f"s{i}", p))
            elif p[0] == "var":
                out.append(f"(?P<s{i}>.*?)")
                names.append((f"s{i}", p))
        return re.compile("".join(out), re.S), names

    def static_text(self):
        return "".join(p[1] for p in self.pieces if p[0] == "static")


def split_loop(text, prefix, suffix):
    "Split the rendered loop text into its lines (each has no newline)."
    lines = []
    pos = 0
    pat = re.compile(re.escape(prefix) + r"(.*?)" + re.escape(suffix), re.S)
    while pos < len(text):
        m = pat.match(text, pos)
        if not m:
            raise FrontEndError("loop text does not split")
        # choose the shortest line such that the remainder still splits: greedy-shortest is
        # fine because suffix contains a newline in every real template
        lines.append(m.group(1))
        pos = m.end()
    return lines


def extract_slots(backend, filename, rendered, template_dir=None):
    """Returns dict var -> list of lines (loops) or str (plain vars); raises FrontEndError."""
    template_dir = template_dir or find_template_dir(backend)
    src = open(os.path.join(template_dir, filename)).read()
    shape = TemplateShape(src)
    if shape.unsupported:
        raise FrontEndError(f"template {filename}: constructs outside front end: {shape.unsupported}")
    st = shape.static_text()
    if "{{" in st or "{%" in st or "{#" in st:
        raise FrontEndError(f"template {filename}: static text contains a directive")
    rx, names = shape.regex()
    # jinja2 strips a single trailing newline of the template (keep_trailing_newline=False)
    m = rx.fullmatch(rendered) or rx.fullmatch(rendered + "\n")
    if not m:
        raise FrontEndError(f"{filename}: rendered text is not static+slots of the template")
    slots = {}
    spans = {}
    for gname, p in names:
        if p[0] == "loop":
            slots.setdefault(p[1], [])
            slots[p[1]] = slots[p[1]] + split_loop(m.group(gname), p[2], p[3])
            spans.setdefault(p[1], (m.start(gname), m.end(gname)))
        else:
            slots[p[1]] = m.group(gname)
    text = m.string
    ctx = {}
    for var in ("query_code", "book_code"):
        if var in spans:
            ctx[var] = enclosing_function_body(text, *spans[var])
    slots["__context__"] = ctx
    return slots


def _strip_comments(t):
    t = re.sub(r"/\*.*?\*/", "", t, flags=re.S)
    t = "\n".join(re.sub(r"//.*$", "", ln) for ln in t.split("\n"))
    # conditional blocks on a macro that is defined nowhere in the file are not compiled (#ifdef EXAMPLE ... #endif)
    defined = set(re.findall(r"^\s*#\s*define\s+(\w+)", t, flags=re.M))

    def drop(m):
        return "" if m.group(1) not in defined else m.group(0)
    return re.sub(r"^[ \t]*#\s*ifdef\s+(\w+)[^\n]*\n.*?^[ \t]*#\s*endif[^\n]*$", drop, t, flags=re.S | re.M)


def enclosing_function_body(text, start, end):
    """(text between the opening brace of the FUNCTION that contains [start, end) and start, text between end and that
    function's closing brace), comments removed; None if the braces cannot be matched.  Blocks that are not function bodies
    (try, if, for, bare blocks) around the slot are part of the prefix / suffix."""
    before = _strip_comments(text[:start])
    after = _strip_comments(text[end:])
    pos = len(before)
    apos = 0
    while True:
        depth = 0
        i = pos - 1
        open_at = None
        while i >= 0:
            ch = before[i]
            if ch == "}":
                depth += 1
            elif ch == "{":
                if depth == 0:
                    open_at = i
                    break
                depth -= 1
            i -= 1
        if open_at is None:
            return None
        depth = 0
        close_at = None
        for j in range(apos, len(after)):
            ch = after[j]
            if ch == "{":
                depth += 1
            elif ch == "}":
                if depth == 0:
                    close_at = j
                    break
                depth -= 1
        if close_at is None:
            return None
        head = before[:open_at].rstrip().split("\n")[-1].strip() if before[:open_at].strip() else ""
        is_function = bool(re.search(r"\)\s*(const)?\s*$", head)) and not re.match(r"^(if|for|while|switch|catch|else)\b", head)
        if is_function or open_at == 0:
            return {"prefix": before[open_at + 1:], "suffix": after[:close_at], "header": head}
        pos = open_at
        apos = close_at + 1


def package_slots(pkg):
    """All slots of the C++ carrying files of a package.  dict file -> slots."""
    files = {"atlas": ["query.cxx", "query.h"],
             "cms_aod": ["Analyzer.cc"], "cms_miniaod": ["Analyzer.cc"]}[pkg.backend]
    return {f: extract_slots(pkg.backend, f, pkg.files[f]) for f in files}
