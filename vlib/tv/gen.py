"""Typed program generator (outer quantifier of engine A): enumerates well-typed queries of
the documented fragment as SOURCE TEXT, exhaustively up to a size budget, plus seeded random
programs above it.  Queries are built per backend over a small vocabulary."""
import hashlib
import itertools
import random
import re
from functools import lru_cache

from .equiv import Program, with_metadata
from .model import DataModel, MethodSpec, TColl, TNum, TObj

VOCAB = {
    "atlas": dict(prim="Jets", sec="Tracks", single="EventInfo", prim_cls="xAOD::Jet", sec_cls="xAOD::TrackParticle",
                  single_cls="xAOD::EventInfo"),
    "cms_aod": dict(prim="Muons", sec="Tracks", single=None, prim_cls="reco::Muon", sec_cls="reco::Track", single_cls=None),
    "cms_miniaod": dict(prim="Muons", sec="Electrons", single=None, prim_cls="pat::Muon", sec_cls="pat::Electron", single_cls=None),
}

# methods the generator may use, beyond the undeclared (double) ones
DECLARED = {
    "nTrk": TNum("int"),
    "isGood": TNum("bool"),
    "ptf": TNum("float"),
    "vals": TColl("std::vector<float>", TNum("float"), 0),
    "ivals": TColl("std::vector<int>", TNum("int"), 0),
}
UNDECLARED = ["pt", "eta", "phi"]


def datamodel_for(query, backend):
    dm = DataModel(backend)
    v = VOCAB[backend]
    for cls in filter(None, (v["prim_cls"], v["sec_cls"], v["single_cls"])):
        for m, t in DECLARED.items():
            if re.search(rf"\.{m}\(", query):
                dm.declare_method(cls, MethodSpec(m, t))
    return dm


def make_program(query, backend, label="", tags=()):
    dm = datamodel_for(query, backend)
    return Program(with_metadata(query, dm), backend, dm, label=label, tags=tuple(tags), src=query)


# ------------------------------------------------------------------ budgeted typed enumeration
class G:
    def __init__(self, backend, rich=True):
        self.b = backend
        self.v = VOCAB[backend]
        self.rich = rich
        self.memo = {}

    VARS = ["j", "t", "k", "u", "w"]

    def fresh(self, env):
        used = {n for n, _ in env}
        for n in self.VARS:
            if n not in used:
                return n
        return f"v{len(env)}"

    # types: 'num', 'int', 'bool', ('obj', cls), ('seq', T), 'event'
    def gen(self, ty, env, size):
        key = (ty, tuple(env), size)
        if key in self.memo:
            return self.memo[key]
        out = self._gen(ty, env, size)
        # stable de-dup
        seen, res = set(), []
        for x in out:
            if x not in seen:
                seen.add(x)
                res.append(x)
        self.memo[key] = res
        return res

    def splits(self, size, parts):
        "all tuples of positive ints summing to size"
        if parts == 1:
            if size >= 1:
                yield (size,)
            return
        for a in range(1, size - parts + 2):
            for rest in self.splits(size - a, parts - 1):
                yield (a,) + rest

    def _gen(self, ty, env, size):
        if size < 1:
            return []
        out = []
        objs = [(n, t) for n, t in env if isinstance(t, tuple) and t[0] == "obj"]
        nums = [n for n, t in env if t in ("num", "int")]
        ev = [n for n, t in env if t == "event"]
        if ty in ("num", "int"):
            if size == 1:
                for n, _ in objs[-2:]:
                    if ty == "num":
                        out += [f"{n}.pt()", f"{n}.eta()"]
                        if self.rich:
                            out += [f"{n}.ptf()"]
                    out += [f"{n}.nTrk()"]
                for n in nums[-2:]:
                    if ty == "num" or dict(env)[n] == "int":
                        out.append(n)
                out += ["2"] if ty == "int" else ["2", "1.5"]
                if ev and self.v["single"] and ty == "num":
                    out.append(f"{ev[0]}.{self.v['single']}('EI').runNumber()")
                return out
            # unary
            for a in self.gen(ty, env, size - 1):
                if not re.fullmatch(r"[\d.]+", a):
                    out.append(f"(-{a})")
                    if ty == "num":
                        out.append(f"abs({a})")
            # binary
            for sa, sb in self.splits(size - 1, 2):
                for a in self.gen(ty, env, sa):
                    for b in self.gen(ty, env, sb):
                        if re.fullmatch(r"[\d.]+", a) and re.fullmatch(r"[\d.]+", b):
                            continue
                        out.append(f"({a} + {b})")
                        if sa <= sb:
                            out.append(f"({a} - {b})")
                        if re.fullmatch(r"[\d.]+", b):
                            out.append(f"({a} * {b})")
                        if ty == "num" and re.fullmatch(r"[\d.]+", b):
                            out.append(f"({a} / {b})")
            if ty == "num":
                # conditional
                for sp, sa, sb in self.splits(size - 1, 3):
                    for p in self.gen("bool", env, sp):
                        for a in self.gen("num", env, sa)[:3]:
                            for b in self.gen("num", env, sb)[:3]:
                                if a != b:
                                    out.append(f"({a} if {p} else {b})")
            # aggregates over sequences visible here
            for s in self.gen(("seq", "obj"), env, size - 1):
                out.append(f"{s}.Count()")
            if size >= 3:
                for s in self.gen(("seq", "num"), env, size - 1):
                    if ty == "num":
                        out += [f"{s}.Sum()", f"{s}.Max()", f"{s}.Min()", f"{s}.First()"]
                        if self.rich:
                            out.append(f"{s}.Aggregate(0.0, lambda acc, x: acc + x)")
                for s in self.gen(("seq", "int"), env, size - 1):
                    out += [f"{s}.Sum()", f"{s}.First()", f"{s}.Count()"]
                if ty == "num":
                    for s in self.gen(("seq", "obj"), env, size - 2):
                        out += [f"{s}.First().pt()"]
            return out
        if ty == "bool":
            if size == 1:
                for n, _ in objs[-2:]:
                    if self.rich:
                        out.append(f"{n}.isGood()")
                return out
            if size == 2:
                for a in self.gen("num", env, 1):
                    if not re.fullmatch(r"[\d.]+", a):
                        out += [f"{a} > 1.5", f"{a} <= 2"]
            if size >= 3:
                for a in self.gen("num", env, size - 1):
                    if not re.fullmatch(r"[\d.]+", a):
                        out.append(f"{a} > 1.5")
            for sa, sb in self.splits(size - 1, 2):
                A, B = self.gen("num", env, sa), self.gen("num", env, sb)
                for a in A:
                    for b in B:
                        if a != b and not (re.fullmatch(r"[\d.]+", a) and re.fullmatch(r"[\d.]+", b)) and not re.fullmatch(r"[\d.]+", b):
                            out.append(f"{a} > {b}")
                            if sa == sb and a < b:
                                out.append(f"{a} == {b}")
                P, Q = self.gen("bool", env, sa), self.gen("bool", env, sb)
                for p in P:
                    for q in Q:
                        if p != q:
                            out += [f"({p} and {q})", f"({p} or {q})"]
            for p in self.gen("bool", env, size - 1):
                out.append(f"(not {p})")
            return out
        if isinstance(ty, tuple) and ty[0] == "seq":
            el = ty[1]
            if el == "obj":
                if size == 1:
                    for e in ev:
                        out += [f"{e}.{self.v['prim']}('A')", f"{e}.{self.v['sec']}('B')"]
                    return out
                for s in self.gen(ty, env, 1):
                    n = self.fresh(env)
                    cls = self.v["prim_cls"] if self.v["prim"] in s else self.v["sec_cls"]
                    for p in self.gen("bool", env + [(n, ("obj", cls))], size - 1):
                        if re.search(rf"\b{n}\b", p):
                            out.append(f"{s}.Where(lambda {n}: {p})")
                return out
            if el in ("num", "int"):
                if size < 2:
                    return []
                for ss in range(1, size):
                    for s in self.gen(("seq", "obj"), env, ss):
                        n = self.fresh(env)
                        cls = self.v["prim_cls"] if self.v["prim"] in s else self.v["sec_cls"]
                        for a in self.gen(el, env + [(n, ("obj", cls))], size - ss):
                            if re.search(rf"\b{n}\b", a):
                                out.append(f"{s}.Select(lambda {n}: {a})")
                # numbers filtered
                if size >= 4:
                    for s in self.gen(ty, env, size - 2):
                        n = self.fresh(env)
                        out.append(f"{s}.Where(lambda {n}: {n} > 1)")
                # declared vector<float>/vector<int> methods
                if self.rich and size == 2:
                    for n, _ in objs[-1:]:
                        out.append(f"{n}.vals()" if el == "num" else f"{n}.ivals()")
                if el == "int" and size >= 2:
                    for a in self.gen("int", env, size - 1):
                        if not re.fullmatch(r"[\d.]+", a):
                            pass
                    if size == 2:
                        out.append("Range(0, 3)")
                # flatten: SelectMany over nested numbers
                if size >= 4:
                    for ss in range(1, size - 2):
                        for s in self.gen(("seq", "obj"), env, ss):
                            n = self.fresh(env)
                            cls = self.v["prim_cls"] if self.v["prim"] in s else self.v["sec_cls"]
                            for inner in self.gen(ty, env + [(n, ("obj", cls))], size - ss - 1):
                                if re.search(rf"\b{n}\b", inner):
                                    out.append(f"{s}.SelectMany(lambda {n}: {inner})")
                return out
            if isinstance(el, tuple) and el[0] == "seq":
                if size < 3:
                    return []
                for ss in range(1, size - 1):
                    for s in self.gen(("seq", "obj"), env, ss):
                        n = self.fresh(env)
                        cls = self.v["prim_cls"] if self.v["prim"] in s else self.v["sec_cls"]
                        for inner in self.gen(el, env + [(n, ("obj", cls))], size - ss):
                            out.append(f"{s}.Select(lambda {n}: {inner})")
                return out
        return out

    # ------------------------------------------------------------ top-level forms
    def tops(self, size):
        env = [("e", "event")]
        out = []
        for ty in ("num", "int", ("seq", "num"), ("seq", "int"), ("seq", ("seq", "num"))):
            for x in self.gen(ty, env, size):
                if "e." not in x:
                    continue
                out.append(f"Select(EventDataset('ds'), lambda e: {x})")
        return out

    def tops_structured(self, size):
        env = [("e", "event")]
        cols = []
        for ty in ("num", ("seq", "num"), "int"):
            cols += [x for x in self.gen(ty, env, size) if "e." in x]
        out = []
        for a, b in itertools.combinations(cols, 2):
            out.append(f"Select(EventDataset('ds'), lambda e: ({a}, {b}))")
            out.append(f"Select(EventDataset('ds'), lambda e: {{'first': {a}, 'second': {b}}})")
        return out

    def tops_rowlevel(self, size):
        env = [("e", "event")]
        out = []
        for ss in range(1, size):
            for s in self.gen(("seq", "obj"), env, ss):
                cls = self.v["prim_cls"] if self.v["prim"] in s else self.v["sec_cls"]
                for a in self.gen("num", [("j", ("obj", cls))], size - ss):
                    if "j." in a:
                        out.append(f"Select(SelectMany(EventDataset('ds'), lambda e: {s}), lambda j: {a})")
        return out

    def tops_eventwhere(self, size):
        env = [("e", "event")]
        out = []
        for sp in range(2, size):
            for p in self.gen("bool", env, sp):
                if "e." not in p:
                    continue
                for x in self.gen("num", env, size - sp) + self.gen(("seq", "num"), env, size - sp):
                    if "e." in x:
                        out.append(f"Select(Where(EventDataset('ds'), lambda e: {p}), lambda e: {x})")
        return out


def stable_hash(s):
    return int(hashlib.sha1(s.encode()).hexdigest()[:12], 16)


def pick(items, n, salt=""):
    "deterministic subset of at most n items"
    items = sorted(set(items), key=lambda s: stable_hash(salt + s))
    return items[:n]


def c01_programs(backend, tier, seed=0):
    """Program list for C01/C02/C05: exhaustive below a size, hashed subset above."""
    g = G(backend, rich=True)
    progs = []
    sizes_all = (1, 2, 3) if tier == "quick" else (1, 2, 3, 4)
    cap = {"quick": 70, "thorough": 400}[tier]
    exhaustive_sizes = []
    for s in sizes_all:
        xs = g.tops(s)
        if len(xs) <= cap * 2:
            exhaustive_sizes.append(s)
            progs += xs
        else:
            progs += pick(xs, cap, f"{seed}")
    for s in ((4, 5) if tier == "quick" else (5, 6)):
        progs += pick(g.tops(s), cap, f"{seed}")
    progs += pick(g.tops_structured(2), cap // 2, f"{seed}") + pick(g.tops_structured(3), cap // 3, f"{seed}")
    for s in ((2, 3, 4) if tier == "quick" else (2, 3, 4, 5)):
        progs += pick(g.tops_rowlevel(s), cap // 2, f"{seed}")
    for s in ((4, 5) if tier == "quick" else (4, 5, 6)):
        progs += pick(g.tops_eventwhere(s), cap // 2, f"{seed}")
    progs += HANDWRITTEN.get(backend, []) + [q.replace("PRIM", VOCAB[backend]["prim"]).replace("SEC", VOCAB[backend]["sec"]) for q in HANDWRITTEN_GENERIC]
    seen, out = set(), []
    for q in progs:
        if q not in seen:
            seen.add(q)
            out.append(make_program(q, backend))
    return out, {"exhaustive_sizes": exhaustive_sizes, "cap_per_family": cap}


# shapes found interesting while reading the translator (self-joins, 2-D, First after Where, ...)
HANDWRITTEN_GENERIC = [
    "Select(EventDataset('ds'), lambda e: e.PRIM('A').Select(lambda j: e.PRIM('A').Select(lambda k: k.pt() + j.pt())))",
    "Select(EventDataset('ds'), lambda e: e.PRIM('A').Select(lambda j: e.SEC('B').Where(lambda t: t.pt() > j.pt()).Count()))",
    "Select(EventDataset('ds'), lambda e: e.PRIM('A').Select(lambda j: e.SEC('B').Where(lambda t: t.pt() > j.pt()).Select(lambda t: t.eta())))",
    "Select(EventDataset('ds'), lambda e: (e.PRIM('A').Select(lambda j: j.pt()), e.PRIM('A').Select(lambda j: j.eta())))",
    "Select(EventDataset('ds'), lambda e: (e.PRIM('A').Select(lambda j: j.pt()), e.PRIM('C').Count()))",
    "Select(EventDataset('ds'), lambda e: {'n': e.PRIM('A').Count(), 'pts': e.PRIM('A').Where(lambda j: j.pt() > 1.5).Select(lambda j: j.pt())})",
    "Select(EventDataset('ds'), lambda e: e.PRIM('A').Where(lambda j: j.pt() > 30).Select(lambda j: j.eta()).First())",
    "Select(Where(EventDataset('ds'), lambda e: e.PRIM('A').Count() > 1), lambda e: e.PRIM('A').First().pt())",
    "Select(Where(EventDataset('ds'), lambda e: e.PRIM('A').Where(lambda j: j.pt() > 2).Count() > 0), lambda e: e.PRIM('A').Select(lambda j: j.pt()))",
    "Select(SelectMany(EventDataset('ds'), lambda e: e.PRIM('A')), lambda j: (j.pt(), j.eta()))",
    "Select(SelectMany(EventDataset('ds'), lambda e: e.PRIM('A')).Where(lambda j: j.pt() > 2), lambda j: j.eta())",
    "Select(SelectMany(EventDataset('ds'), lambda e: e.PRIM('A').Where(lambda j: j.eta() < 1)), lambda j: {'pt': j.pt(), 'n': j.nTrk()})",
    "Select(EventDataset('ds'), lambda e: e.PRIM('A').Select(lambda j: j.pt() if j.eta() > 0 and j.phi() < 1 else 0.5))",
    "Select(EventDataset('ds'), lambda e: e.PRIM('A').Select(lambda j: j.pt()).Where(lambda p: p > 2).Count())",
    "Select(EventDataset('ds'), lambda e: e.PRIM('A').Select(lambda j: j.vals()))",
    "Select(EventDataset('ds'), lambda e: e.PRIM('A').Select(lambda j: j.vals().Where(lambda v: v > 1).Count()))",
    "Select(EventDataset('ds'), lambda e: e.PRIM('A').SelectMany(lambda j: j.vals()))",
    "Select(EventDataset('ds'), lambda e: e.PRIM('A').Select(lambda j: j.vals().Sum()))",
    "Select(EventDataset('ds'), lambda e: e.PRIM('A').Select(lambda j: j.vals()[0]))",
    "Select(EventDataset('ds'), lambda e: e.PRIM('A').Where(lambda j: j.vals().Count() > 1).Select(lambda j: j.vals()[1]))",
    "Select(EventDataset('ds'), lambda e: Range(0, 3).Select(lambda i: i * 2))",
    "Select(EventDataset('ds'), lambda e: e.PRIM('A').Select(lambda j: Range(0, 2).Select(lambda i: j.pt() * i)))",
    "Select(EventDataset('ds'), lambda e: e.PRIM('A').Select(lambda j: j.pt()).Aggregate(0.0, lambda acc, p: acc + p * 2))",
    "Select(EventDataset('ds'), lambda e: e.PRIM('A').Select(lambda j: j.nTrk()).Aggregate(0, lambda acc, n: acc + n))",
    "Select(EventDataset('ds'), lambda e: e.PRIM('A').Select(lambda j: j.nTrk()).Sum())",
    "Select(EventDataset('ds'), lambda e: e.PRIM('A').Select(lambda j: j.ptf()).Sum())",
    "Select(EventDataset('ds'), lambda e: e.PRIM('A').Count() + e.SEC('B').Count())",
    "Select(EventDataset('ds'), lambda e: e.PRIM('A').Count() * 2 - 1)",
    "Select(EventDataset('ds'), lambda e: e.PRIM('A').Select(lambda j: e.PRIM('A').Where(lambda k: k.pt() > j.pt()).Count()).Sum())",
    "Select(EventDataset('ds'), lambda e: e.PRIM('A').Select(lambda j: (j.pt(), j.eta())).Select(lambda p: p[0] + p[1]))",
    "Select(EventDataset('ds'), lambda e: e.PRIM('A').Select(lambda j: {'a': j.pt(), 'b': j.eta()}).Select(lambda d: d['a'] - d['b']))",
    "Select(Select(EventDataset('ds'), lambda e: (e.PRIM('A'), e.SEC('B'))), lambda p: (p[0].Count(), p[1].Select(lambda t: t.pt())))",
    "Select(Select(EventDataset('ds'), lambda e: e.PRIM('A')), lambda js: js.Where(lambda j: j.pt() > 1).Select(lambda j: j.eta()))",
    "ResultTTree(Select(EventDataset('ds'), lambda e: (e.PRIM('A').Count(), e.SEC('B').Count())), ('na', 'nb'), 'mytree', 'out.root')",
    "ResultTTree(Select(EventDataset('ds'), lambda e: e.PRIM('A').Select(lambda j: j.pt())), 'pts', 't1', 'out.root')",
]
def _precedence_family():
    "every pair of binary operators in both groupings: the emitted expression must keep the query's grouping"
    ops = ["+", "-", "*", "/", "%"]
    a, b, c = "j.pt()", "j.eta()", "j.nTrk()"
    out = []
    for o1 in ops:
        for o2 in ops:
            if "%" in (o1, o2):
                a_, b_, c_ = "j.nTrk()", "j.ivals().Count()", "3"     # % on non-negative ints only (as the properties say)
                if o1 == "%" and o2 in ("-",):
                    continue                                             # right operand of % could be negative
            else:
                a_, b_, c_ = a, b, c
            out.append(f"Select(EventDataset('ds'), lambda e: e.PRIM('A').Select(lambda j: {a_} {o1} ({b_} {o2} {c_})))")
            out.append(f"Select(EventDataset('ds'), lambda e: e.PRIM('A').Select(lambda j: ({a_} {o1} {b_}) {o2} {c_}))")
    out.append("Select(EventDataset('ds'), lambda e: e.PRIM('A').Select(lambda j: -(j.pt() - j.eta())))")
    out.append("Select(EventDataset('ds'), lambda e: e.PRIM('A').Select(lambda j: -(j.pt() * j.eta()) ** 2))")
    out.append("Select(EventDataset('ds'), lambda e: e.PRIM('A').Select(lambda j: (j.pt() + 1) ** 2 / (j.eta() + 3) ** 2))")
    out.append("Select(EventDataset('ds'), lambda e: e.PRIM('A').Select(lambda j: not (j.pt() > 1 and j.eta() > 1) or j.isGood()))")
    out.append("Select(EventDataset('ds'), lambda e: e.PRIM('A').Select(lambda j: (j.pt() > 1 or j.eta() > 1) and j.isGood()))")
    out.append("Select(EventDataset('ds'), lambda e: e.PRIM('A').Select(lambda j: (j.pt() if j.isGood() else j.eta()) * 2))")
    out.append("Select(EventDataset('ds'), lambda e: e.PRIM('A').Select(lambda j: 2 * (j.pt() > j.eta())))")
    return out


HANDWRITTEN_GENERIC += _precedence_family()
HANDWRITTEN_GENERIC += [
    # masking idioms: a boolean times / plus a real value, in both operand orders, as a column and folded
    "Select(EventDataset('ds'), lambda e: e.PRIM('A').Select(lambda j: (j.pt() > 1.5) * j.pt()))",
    "Select(EventDataset('ds'), lambda e: e.PRIM('A').Select(lambda j: j.pt() * (j.pt() > 1.5)))",
    "Select(EventDataset('ds'), lambda e: e.PRIM('A').Select(lambda j: j.isGood() * j.ptf() + (j.eta() > 0) * 2.5))",
    "Select(EventDataset('ds'), lambda e: e.PRIM('A').Select(lambda j: (j.pt() > 1.5) * j.pt()).Sum())",
    "Select(EventDataset('ds'), lambda e: e.PRIM('A').Select(lambda j: (j.pt() > 1.5) - j.pt() / 2).Sum())",
    # a sequence bound to a lambda parameter and used more than once (side by side, under a conditional, at different depths)
    "Select(Select(EventDataset('ds'), lambda e: e.PRIM('A')), lambda js: (js.Where(lambda t: t.pt() > 1.5).Count(), js.Count()))",
    "Select(Select(EventDataset('ds'), lambda e: e.PRIM('A')), lambda js: {'a': js.Where(lambda t: t.pt() > 1.5).Count() if js.Count() > 1 else 0, 'b': js.Count()})",
    "Select(Select(EventDataset('ds'), lambda e: e.SEC('B')), lambda ts: {'n_sel': (ts.Where(lambda t: t.pt() > 1.5).Count() if 1 > 0 else 0), 'n_all': ts.Count()})",
    "Select(Select(EventDataset('ds'), lambda e: e.PRIM('A')), lambda js: (js.Select(lambda j: j.pt()), js.Select(lambda j: j.eta()), js.Count()))",
    "Select(Select(EventDataset('ds'), lambda e: (e.PRIM('A'), e.SEC('B'))), lambda p: (p[0].Select(lambda j: p[1].Count()), p[1].Count()))",
]
# the same sequence variable iterated INSIDE an iteration over itself (known finding KF-sequence-variable-self-join)
SELF_JOIN_VIA_VARIABLE = [
    "Select(Select(EventDataset('ds'), lambda e: e.PRIM('A')), lambda js: js.Select(lambda j: js.Where(lambda k: k.pt() > j.pt()).Count()))",
    "Select(Select(EventDataset('ds'), lambda e: e.PRIM('A')), lambda js: js.Select(lambda j: js.Count()))",
    "Select(Select(EventDataset('ds'), lambda e: e.PRIM('A').Where(lambda j: j.pt() > 1.5)), lambda js: js.Select(lambda j: js.Select(lambda k: k.pt() + j.pt()).Sum()))",
]
HANDWRITTEN_GENERIC += SELF_JOIN_VIA_VARIABLE
HANDWRITTEN_GENERIC += [
    # the same collection (same bank) used twice, the first use in a deeper block than the second; several columns from different loops
    "Select(EventDataset('ds'), lambda e: (e.SEC('B').Select(lambda t: e.PRIM('A').Where(lambda j: j.pt() > t.pt()).Count()), e.PRIM('A').Count()))",
    "Select(EventDataset('ds'), lambda e: (e.SEC('B').Select(lambda t: e.PRIM('A').Count()), e.PRIM('A').Select(lambda j: j.pt())))",
    "Select(EventDataset('ds'), lambda e: {'a': e.PRIM('A').Select(lambda j: e.PRIM('A').Count()), 'b': e.PRIM('A').Count()})",
    "Select(Where(EventDataset('ds'), lambda e: e.PRIM('A').Count() > 0 and e.SEC('B').Count() > 0), lambda e: (e.PRIM('A').First().pt(), e.SEC('B').First().pt()))",
    "Select(Where(EventDataset('ds'), lambda e: e.PRIM('A').Count() > 0), lambda e: (e.PRIM('A').First().pt(), e.SEC('B').Select(lambda t: t.pt())))",
    "Select(Where(EventDataset('ds'), lambda e: e.PRIM('A').Count() > 0), lambda e: (e.SEC('B').Select(lambda t: t.pt()), e.PRIM('A').First().pt(), e.SEC('B').Count()))",
    # an operation applied to an aggregate over a flattened sequence, alone and followed by another column
    "Select(EventDataset('ds'), lambda e: e.PRIM('A').SelectMany(lambda j: e.SEC('B')).Select(lambda t: t.pt()).Sum() / 1000.0)",
    "Select(EventDataset('ds'), lambda e: e.PRIM('A').SelectMany(lambda j: j.vals()).Count() + 1)",
    "Select(EventDataset('ds'), lambda e: (e.PRIM('A').SelectMany(lambda j: j.vals()).Sum() * 2, e.SEC('B').Count()))",
    "Select(EventDataset('ds'), lambda e: -e.PRIM('A').SelectMany(lambda j: j.vals()).Count())",
    "Select(EventDataset('ds'), lambda e: e.PRIM('A').SelectMany(lambda j: j.vals()).Count() > 2)",
    "Select(EventDataset('ds'), lambda e: 1.5 if e.PRIM('A').SelectMany(lambda j: j.vals()).Count() > 2 else 0.5)",
]
HANDWRITTEN_GENERIC += [
    # aggregates / First over flattened (SelectMany) sequences
    "Select(EventDataset('ds'), lambda e: e.PRIM('A').SelectMany(lambda j: j.vals()).Count())",
    "Select(EventDataset('ds'), lambda e: e.PRIM('A').SelectMany(lambda j: j.vals()).Sum())",
    "Select(EventDataset('ds'), lambda e: e.PRIM('A').SelectMany(lambda j: e.SEC('B')).Count())",
    "Select(EventDataset('ds'), lambda e: e.PRIM('A').SelectMany(lambda j: e.SEC('B').Where(lambda t: t.pt() > j.pt())).Count())",
    "Select(EventDataset('ds'), lambda e: e.PRIM('A').SelectMany(lambda j: e.SEC('B').Select(lambda t: t.pt() + j.pt())).Sum())",
    "Select(EventDataset('ds'), lambda e: e.PRIM('A').Select(lambda j: e.SEC('B')).SelectMany(lambda ts: ts).Count())",
    "Select(EventDataset('ds'), lambda e: e.PRIM('A').SelectMany(lambda j: j.vals()).Where(lambda v: v > 1).Count())",
    "Select(EventDataset('ds'), lambda e: e.PRIM('A').SelectMany(lambda j: j.vals()).Aggregate(0.0, lambda acc, v: acc + v))",
    "Select(Where(EventDataset('ds'), lambda e: e.PRIM('A').SelectMany(lambda j: j.vals()).Count() > 0), lambda e: e.PRIM('A').SelectMany(lambda j: j.vals()).First())",
    "Select(EventDataset('ds'), lambda e: e.PRIM('A').SelectMany(lambda j: j.vals()).First())",
    "Select(EventDataset('ds'), lambda e: e.PRIM('A').Select(lambda j: e.SEC('B').SelectMany(lambda t: t.vals()).Count()))",
    "Select(EventDataset('ds'), lambda e: (e.PRIM('A').SelectMany(lambda j: j.vals()).Count(), e.PRIM('A').Count()))",
    "Select(EventDataset('ds'), lambda e: e.PRIM('A').SelectMany(lambda j: j.vals()))",
    "Select(EventDataset('ds'), lambda e: e.PRIM('A').SelectMany(lambda j: e.SEC('B').Select(lambda t: t.pt() * j.pt())))",
]
HANDWRITTEN = {
    "atlas": [
        "Select(EventDataset('ds'), lambda e: e.EventInfo('EI').runNumber())",
        "Select(EventDataset('ds'), lambda e: (e.EventInfo('EI').runNumber(), e.Jets('A').Count()))",
        "Select(EventDataset('ds'), lambda e: e.Jets('A').Select(lambda j: j.pt() * e.EventInfo('EI').runNumber()))",
        "Select(EventDataset('ds'), lambda e: e.Jets('A').Select(lambda j: DeltaR(j.eta(), j.phi(), 0.5, 1.0)))",
        # angles on either side of the +-pi seam (the difference in phi is folded into [-pi, pi) whichever object comes first)
        "Select(EventDataset('ds'), lambda e: e.Jets('A').Select(lambda j: DeltaR(j.eta(), -3.0, 0.5, 3.0)))",
        "Select(EventDataset('ds'), lambda e: e.Jets('A').Select(lambda j: DeltaR(j.eta(), 3.0, 0.5, -3.0)))",
        "Select(EventDataset('ds'), lambda e: e.Jets('A').Where(lambda j: DeltaR(j.eta(), -3.1, j.eta(), 3.1) < 0.4).Count())",
        "Select(EventDataset('ds'), lambda e: e.Jets('A').Select(lambda j: e.Tracks('B').Where(lambda t: DeltaR(j.eta(), j.phi(), t.eta(), t.phi()) < 1.5).Count()))",
    ],
}


def c02_extra(backend):
    "Programs aimed at declaration/scope/typing corner cases (C02)."
    v = VOCAB[backend]
    P, S = v["prim"], v["sec"]
    qs = [
        f"Select(EventDataset('ds'), lambda e: e.{P}('A').Select(lambda j: (j.pt() if j.eta() > 0 else j.phi()) if j.pt() > 1 else 0.0))",
        f"Select(EventDataset('ds'), lambda e: e.{P}('A').Where(lambda j: j.pt() > 1 or j.eta() > 1 and j.phi() > 1).Count())",
        f"Select(EventDataset('ds'), lambda e: (e.{P}('A').Count(), e.{P}('A').Count()))",
        f"Select(EventDataset('ds'), lambda e: (e.{P}('A').Select(lambda j: j.pt()), e.{P}('A').Select(lambda j: j.pt())))",
        f"Select(EventDataset('ds'), lambda e: e.{P}('A').Select(lambda j: e.{P}('A').Count()))",
        f"Select(EventDataset('ds'), lambda e: e.{P}('A').Select(lambda j: e.{S}('B').Select(lambda t: e.{P}('A').Where(lambda k: k.pt() > t.pt() + j.pt()).Count())))",
        f"Select(EventDataset('ds'), lambda e: e.{P}('A').Select(lambda j: j.pt()).First() + e.{P}('A').Select(lambda j: j.eta()).First())",
        f"Select(EventDataset('ds'), lambda e: e.{P}('A').Where(lambda j: e.{S}('B').Where(lambda t: t.pt() > j.pt()).Count() > 0).Select(lambda j: j.pt()))",
        f"Select(SelectMany(EventDataset('ds'), lambda e: e.{P}('A').Select(lambda j: (j, e.{S}('B').Count()))), lambda p: p[0].pt() * p[1])",
        f"Select(EventDataset('ds'), lambda e: e.{P}('A').Select(lambda j: j.pt() % 2))",
        f"Select(EventDataset('ds'), lambda e: e.{P}('A').Select(lambda j: j.nTrk() % 2))",
        f"Select(EventDataset('ds'), lambda e: e.{P}('A').Select(lambda j: j.pt() ** 2))",
        # a method call whose ARGUMENT needs statements of its own (First / aggregates), on a receiver of an outer scope
        f"Select(Where(EventDataset('ds'), lambda e: e.{P}('A').Count() > 0), lambda e: e.{P}('C').Select(lambda k: k.weight(e.{P}('A').First().pt())))",
        f"Select(Where(EventDataset('ds'), lambda e: e.{S}('B').Count() > 0), lambda e: e.{P}('A').Select(lambda j: j.weight(e.{S}('B').First().pt(), j.pt())))",
        f"Select(EventDataset('ds'), lambda e: e.{P}('A').Select(lambda j: j.weight(e.{S}('B').Where(lambda t: t.pt() > j.pt()).Count())))",
        # a string constant as a value: whatever storage the translator declares for it must be a declared C++ type
        f"Select(EventDataset('ds'), lambda e: e.{P}('A').Select(lambda j: 'hi'))",
        "Select(EventDataset('ds'), lambda e: 'hi')",
        f"Select(SelectMany(EventDataset('ds'), lambda e: e.{P}('A')), lambda j: ('hi', j.pt()))",
        f"Select(Where(EventDataset('ds'), lambda e: e.{P}('A').Count() > 0), lambda e: e.{P}('A').Select(lambda j: 'hi').First())",
    ]
    if backend == "atlas":
        qs += ["Select(Where(EventDataset('ds'), lambda e: e.Jets('A').Count() > 0), lambda e: e.EventInfo('EI').weight(e.Jets('A').First().pt()))",
               "Select(Where(EventDataset('ds'), lambda e: e.Jets('A').Count() > 0), lambda e: e.EventInfo('EI').weight(e.Jets('A').First().pt()) + e.Jets('A').Count())",
               "Select(EventDataset('ds'), lambda e: e.EventInfo('EI').weight(e.Jets('A').Where(lambda j: j.pt() > 1.5).Count()))"]
    return qs


# ------------------------------------------------------------------ C03: terminal forms x kinds
KIND_EXPRS = {
    "double": "j.pt()", "float": "j.ptf()", "int": "j.nTrk()", "bool": "j.isGood()",
    "div": "j.nTrk() / 2", "cond": "(j.nTrk() if j.isGood() else 2)", "cmp": "j.pt() > j.eta()",
    "boolop": "(j.pt() > 1 and j.isGood())", "sum": "j.nTrk() + 1", "neg": "(-j.nTrk())",
    # same-kind operands whose result kind differs from the operand kind
    "boolsum": "((j.pt() > 1.5) + (j.eta() < 2.0))", "boolprod": "(j.isGood() * j.isGood())", "boolneg": "(-j.isGood())",
    "intdiv": "(j.nTrk() / j.nTrk())", "boolcmpdiff": "((j.pt() > 1.5) - (j.eta() > 1.5))", "notint": "(not j.nTrk())",
    "floatsum": "(j.ptf() + j.ptf())", "mixed": "(j.ptf() + j.nTrk())", "pow": "(j.nTrk() ** 2)",
    # float literals whose value is a whole number stay floating (2.0 is not 2), alone and combined with integers
    "wholeflt_add": "(j.nTrk() + 1.0)", "wholeflt_mul": "(j.nTrk() * 2.0)", "wholeflt_sub": "(3.0 - j.nTrk())", "wholeflt_lit": "2.0",
    "wholeflt_exp": "(j.nTrk() * 1e3)", "wholeflt_bool": "(j.isGood() + 1.0)", "fltlit": "2.5", "intlit": "2", "boollit": "True",
}
EVENT_KIND_EXPRS = {
    "count": "e.PRIM('A').Count()", "sumd": "e.PRIM('A').Select(lambda j: j.pt()).Sum()",
    "sumi": "e.PRIM('A').Select(lambda j: j.nTrk()).Sum()", "cmp": "e.PRIM('A').Count() > 1",
    "div": "e.PRIM('A').Count() / 2",
    "boolsum": "((e.PRIM('A').Count() > 2) + (e.PRIM('A').Count() > 4))", "countdiv": "e.PRIM('A').Count() / e.PRIM('A').Count()",
    "count_wholeflt": "e.PRIM('A').Count() * 2.0", "count_plus_wholeflt": "e.PRIM('A').Count() + 1.0", "wholeflt_lit": "1.0",
    "sumi_wholeflt": "e.PRIM('A').Select(lambda j: j.nTrk()).Sum() - 3.0",
}


def c03_programs(backend, tier):
    v = VOCAB[backend]
    P, S = v["prim"], v["sec"]
    out = []

    def add(q, tags=()):
        out.append(make_program(q.replace("PRIM", P).replace("SEC", S), backend, tags=tags))
    for k, x in KIND_EXPRS.items():
        add(f"Select(EventDataset('ds'), lambda e: e.PRIM('A').Select(lambda j: {x}))")
        add(f"Select(SelectMany(EventDataset('ds'), lambda e: e.PRIM('A')), lambda j: {x})")
        add(f"Select(EventDataset('ds'), lambda e: e.PRIM('A').Select(lambda j: e.SEC('B').Select(lambda t: {x.replace('j.', 't.')})))")
    for k, x in EVENT_KIND_EXPRS.items():
        add(f"Select(EventDataset('ds'), lambda e: {x})")
    kinds = list(KIND_EXPRS.items())
    pairs = [(kinds[i], kinds[(i + 1) % len(kinds)]) for i in range(len(kinds))]
    if tier == "thorough":
        pairs = [(a, b) for a in kinds for b in kinds if a != b]
    for (ka, xa), (kb, xb) in pairs:
        add(f"Select(EventDataset('ds'), lambda e: (e.PRIM('A').Select(lambda j: {xa}), e.PRIM('A').Select(lambda j: {xb})))")
        add(f"Select(EventDataset('ds'), lambda e: [e.PRIM('A').Select(lambda j: {xa}), e.PRIM('A').Count()])")
        add(f"Select(EventDataset('ds'), lambda e: {{'x': e.PRIM('A').Select(lambda j: {xa}), 'y': e.PRIM('A').Select(lambda j: {xb}), 'n': e.PRIM('A').Count()}})")
        add(f"Select(SelectMany(EventDataset('ds'), lambda e: e.PRIM('A')), lambda j: ({xa}, {xb}))")
        add(f"Select(SelectMany(EventDataset('ds'), lambda e: e.PRIM('A')), lambda j: {{'second': {xb}, 'first': {xa}}})")
        add(f"ResultTTree(Select(EventDataset('ds'), lambda e: (e.PRIM('A').Select(lambda j: {xa}), e.PRIM('A').Select(lambda j: {xb}))), ('ca', 'cb'), 'tree_x', 'file.root')")
    # labels that differ only in characters that cannot appear in a C++ identifier: each still has its own storage
    for names in (("jet.pt", "jet_pt", "n"), ("el-eta", "el eta", "el_eta"), ("a b", "a.b", "a-b"), ("x1", "x", "x11"), ("pt", "pt2", "pt22")):
        add(f"ResultTTree(Select(EventDataset('ds'), lambda e: (e.PRIM('A').Select(lambda j: j.pt()), e.PRIM('A').Select(lambda j: j.pt() / 2), e.PRIM('A').Count())), {names!r}, 'tt', 'f.root')", tags=("labels",))
        add(f"ResultTTree(Select(SelectMany(EventDataset('ds'), lambda e: e.PRIM('A')), lambda j: (j.pt(), j.eta(), j.nTrk())), {names!r}, 'tt', 'f.root')", tags=("labels",))
    # dict / tuple streams with an explicit label list of the wrong length must be refused
    for nm in (["a"], ["a", "b", "c"]):
        add(f"ResultTTree(Select(SelectMany(EventDataset('ds'), lambda e: e.PRIM('A')), lambda j: {{'pt': j.pt(), 'eta': j.eta()}}), {nm!r}, 'tt', 'f.root')", tags=("must_raise",))
        add(f"ResultTTree(Select(EventDataset('ds'), lambda e: {{'pt': e.PRIM('A').Select(lambda j: j.pt()), 'n': e.PRIM('A').Count()}}), {nm!r}, 'tt', 'f.root')", tags=("must_raise",))
    # explicit names: n names for m columns, n, m <= 3
    cols = ["e.PRIM('A').Count()", "e.PRIM('A').Select(lambda j: j.pt())", "e.SEC('B').Count()"]
    names = ["n1", "n2", "n3"]
    for m in (1, 2, 3):
        for n in (1, 2, 3):
            body = cols[0] if m == 1 else "(" + ", ".join(cols[:m]) + ")"
            nm = repr(names[0]) if n == 1 else repr(tuple(names[:n]))
            add(f"ResultTTree(Select(EventDataset('ds'), lambda e: {body}), {nm}, 'tt', 'f.root')",
                tags=() if n == m else ("must_raise",))
    # tree names with characters that mean something to ROOT / a file system: booked = filled = descriptor, character for character
    for tn in ("analysis/jets", "run2/2018/jets", "a.b", "my tree", "t-1", "jets;1", "/lead", "", " ", "  t  "):
        add(f"ResultTTree(Select(EventDataset('ds'), lambda e: (e.PRIM('A').Select(lambda j: j.pt()), e.PRIM('A').Count())), ('pt', 'n'), {tn!r}, 'f.root')", tags=("treename",))
        add(f"ResultTTree(Select(SelectMany(EventDataset('ds'), lambda e: e.PRIM('A')), lambda j: j.pt()), 'pt', {tn!r}, 'f.root')", tags=("treename",))
    # declared tree types (shared with C10)
    out += [p_ for p_ in c10_programs(backend) if "tree_type" in p_.tags or "tree_type_arith" in p_.tags]
    return out


# ------------------------------------------------------------------ C04: partial operations under guards
def c04_programs(backend, tier):
    v = VOCAB[backend]
    P, S = v["prim"], v["sec"]
    out = []

    def add(q, tags=(), dm_extra=None):
        q = q.replace("PRIM", P).replace("SEC", S)
        prog = make_program(q, backend, tags=tags)
        out.append(prog)
    qs = [
        # First on possibly empty sequences: unguarded -> loud fault exactly when empty
        "Select(EventDataset('ds'), lambda e: e.PRIM('A').First().pt())",
        "Select(EventDataset('ds'), lambda e: e.PRIM('A').Where(lambda j: j.pt() > 1.5).First().eta())",
        "Select(EventDataset('ds'), lambda e: e.PRIM('A').Where(lambda j: j.pt() > 1.5).Select(lambda j: j.eta()).First())",
        "Select(EventDataset('ds'), lambda e: e.PRIM('A').Select(lambda j: e.SEC('B').Where(lambda t: t.pt() > j.pt()).First().eta()))",
        "Select(EventDataset('ds'), lambda e: (e.PRIM('A').Count(), e.PRIM('A').First().pt()))",
        "Select(SelectMany(EventDataset('ds'), lambda e: e.PRIM('A')), lambda j: j.vals().First())",
        "Select(EventDataset('ds'), lambda e: e.PRIM('A').Select(lambda j: j.vals().First()))",
        # guarded by an event-level Where
        "Select(Where(EventDataset('ds'), lambda e: e.PRIM('A').Count() > 0), lambda e: e.PRIM('A').First().pt())",
        "Select(Where(EventDataset('ds'), lambda e: e.PRIM('A').Where(lambda j: j.pt() > 1.5).Count() > 0), lambda e: e.PRIM('A').Where(lambda j: j.pt() > 1.5).First().eta())",
        "Select(Where(EventDataset('ds'), lambda e: e.PRIM('A').Count() > 0 and e.PRIM('A').First().pt() > 1), lambda e: e.PRIM('A').Count())",
        "Select(Where(EventDataset('ds'), lambda e: e.PRIM('A').Count() == 0 or e.PRIM('A').First().pt() > 1), lambda e: e.PRIM('A').Count())",
        "Select(Where(EventDataset('ds'), lambda e: e.PRIM('A').Count() > 1), lambda e: e.PRIM('A').Count())",
        # guarded inside the expression
        "Select(EventDataset('ds'), lambda e: e.PRIM('A').First().pt() if e.PRIM('A').Count() > 0 else 0.0)",
        "Select(EventDataset('ds'), lambda e: e.PRIM('A').Count() > 0 and e.PRIM('A').First().pt() > 1)",
        "Select(EventDataset('ds'), lambda e: e.PRIM('A').Count() == 0 or e.PRIM('A').First().pt() > 1)",
        "Select(EventDataset('ds'), lambda e: e.PRIM('A').Select(lambda j: e.SEC('B').Where(lambda t: t.pt() > j.pt()).Count() > 0 and e.SEC('B').Where(lambda t: t.pt() > j.pt()).First().eta() > 0))",
        "Select(EventDataset('ds'), lambda e: e.PRIM('A').Where(lambda j: e.SEC('B').Count() > 0).Select(lambda j: e.SEC('B').First().pt() + j.pt()))",
        # indexing
        "Select(EventDataset('ds'), lambda e: e.PRIM('A').Select(lambda j: j.vals()[0]))",
        "Select(EventDataset('ds'), lambda e: e.PRIM('A').Select(lambda j: j.vals()[1] if j.vals().Count() > 1 else 0.0))",
        "Select(EventDataset('ds'), lambda e: e.PRIM('A').Where(lambda j: j.vals().Count() > 1).Select(lambda j: j.vals()[1]))",
        "Select(EventDataset('ds'), lambda e: e.PRIM('A').Select(lambda j: j.vals().Count() > 0 and j.vals()[0] > 1))",
        "Select(EventDataset('ds'), lambda e: e.PRIM('A').Select(lambda j: j.vals().Count() == 0 or j.vals()[0] > 1))",
        "Select(SelectMany(EventDataset('ds'), lambda e: e.PRIM('A')).Where(lambda j: j.vals().Count() > 2), lambda j: j.vals()[2])",
        "Select(SelectMany(EventDataset('ds'), lambda e: e.PRIM('A')), lambda j: j.ivals()[j.nTrk()])",
        # Range with reversed / equal constant bounds is empty (no fault), as in python
        "Select(EventDataset('ds'), lambda e: Range(3, 2).Select(lambda i: i * 2))",
        "Select(EventDataset('ds'), lambda e: Range(2, 2).Count())",
        "Select(EventDataset('ds'), lambda e: e.PRIM('A').Select(lambda j: Range(2, 0).Select(lambda i: j.pt() * i)))",
        "Select(EventDataset('ds'), lambda e: Range(0, 3).Select(lambda i: i + 1))",
        # First of a sequence of sequences: the first inner sequence (known finding KF-first-of-nested-sequence)
        "Select(EventDataset('ds'), lambda e: e.PRIM('A').Select(lambda j: j.vals().Select(lambda v: v * 2)).First())",
        "Select(Where(EventDataset('ds'), lambda e: e.PRIM('A').Count() > 0), lambda e: e.PRIM('A').Select(lambda j: j.vals().Select(lambda v: v * 2)).First())",
        # a vector column filled BEFORE an unguarded partial operation of the same row (the fault comes after the push_backs)
        "Select(EventDataset('ds'), lambda e: (e.PRIM('A').Select(lambda j: j.eta()), e.SEC('B').Select(lambda t: t.pt()).First(), e.PRIM('A').Count()))",
        "Select(EventDataset('ds'), lambda e: {'v': e.PRIM('A').Select(lambda j: j.pt()), 'f': e.SEC('B').First().pt()})",
        "Select(EventDataset('ds'), lambda e: (e.PRIM('A').Select(lambda j: j.vals()), e.PRIM('A').Select(lambda j: j.vals()[0])))",
        # First over a flattened (SelectMany) sequence: undefined exactly when EVERY inner sequence is empty
        "Select(EventDataset('ds'), lambda e: e.PRIM('A').SelectMany(lambda j: j.vals()).First())",
        "Select(EventDataset('ds'), lambda e: e.PRIM('A').SelectMany(lambda j: j.vals()).Where(lambda v: v > 1.5).First())",
        "Select(EventDataset('ds'), lambda e: e.PRIM('A').SelectMany(lambda j: e.SEC('B').Where(lambda t: t.pt() > j.pt())).First().eta())",
        "Select(Where(EventDataset('ds'), lambda e: e.PRIM('A').SelectMany(lambda j: j.vals()).Count() > 0), lambda e: e.PRIM('A').SelectMany(lambda j: j.vals()).First())",
        "Select(EventDataset('ds'), lambda e: e.PRIM('A').SelectMany(lambda j: j.vals()).First() if e.PRIM('A').SelectMany(lambda j: j.vals()).Count() > 0 else -1.0)",
        "Select(EventDataset('ds'), lambda e: e.SEC('B').Select(lambda t: e.PRIM('A').SelectMany(lambda j: j.vals()).Where(lambda v: v > t.pt()).First()))",
    ]
    for q in qs:
        add(q)
    # subscript on a LINQ sequence (not promised by the documentation: refusing is fine, a wrong guard is not)
    for q in ("Select(EventDataset('ds'), lambda e: e.PRIM('A').Select(lambda j: j.pt())[1])",
              "Select(EventDataset('ds'), lambda e: (e.PRIM('A').Select(lambda j: j.pt())[1], e.PRIM('A').Count()))",
              "Select(EventDataset('ds'), lambda e: e.PRIM('A').Where(lambda j: j.pt() > 1.5).Select(lambda j: j.eta())[0])",
              "Select(EventDataset('ds'), lambda e: e.PRIM('A')[1].pt())",
              "Select(Where(EventDataset('ds'), lambda e: e.PRIM('A').Count() > 1), lambda e: e.PRIM('A').Select(lambda j: j.pt())[1])"):
        add(q, tags=("optional", "subscript"))
    # systematic: every partial operation in every position of every lazy construct
    partial_e = {   # event-level partial expressions and the guard that makes them defined
        "first": ("e.PRIM('A').First().pt()", "e.PRIM('A').Count() > 0"),
        "first_where": ("e.PRIM('A').Where(lambda j: j.pt() > 1.5).First().eta()", "e.PRIM('A').Where(lambda j: j.pt() > 1.5).Count() > 0"),
        "first_sec": ("e.SEC('B').First().pt()", "e.SEC('B').Count() > 0"),
    }
    partial_j = {   # per-object partial expressions
        "index": ("j.vals()[0]", "j.vals().Count() > 0"),
        "index1": ("j.vals()[1]", "j.vals().Count() > 1"),
        "firstv": ("j.vals().First()", "j.vals().Count() > 0"),
        "first_inner": ("e.SEC('B').Where(lambda t: t.pt() > j.pt()).First().eta()", "e.SEC('B').Where(lambda t: t.pt() > j.pt()).Count() > 0"),
    }
    forms = [
        "({X} if {X} > 1.5 else 0.0)",              # partial op in the test (unguarded: loud fault expected)
        "(1.0 if {X} > 1.5 else 0.0)",
        "({X} if {G} else 0.0)",                      # guarded: true arm
        "(0.0 if not ({G}) else {X})",                # guarded: else arm
        "({X} if {G} else {Y})",                      # both arms partial, only one guarded
        "({G} and {X} > 1.5)",
        "((not ({G})) or {X} > 1.5)",
        "({X} > 1.5 and {G})",                        # guard too late: loud fault expected
        "(({G}) and ({X} > 1.5 or {X} < 0))",
        "({X} + 1 if {G} and {X} > 0 else -1.0)",
        # a boolean literal among the operands (a captured python flag): python still evaluates what stands in front of it
        "({X} > 1.5 or True)", "({X} > 1.5 and False)", "(True and {X} > 1.5)", "(False or {X} > 1.5)",
        "(False and {X} > 1.5)", "(True or {X} > 1.5)", "({G} and True and {X} > 1.5)", "(({G}) and ({X} > 1.5 or True))",
        "(1.0 if ({X} > 1.5 or True) else 0.0)",
    ]
    ekeys = list(partial_e)
    for i, (k, (x, g)) in enumerate(partial_e.items()):
        y = partial_e[ekeys[(i + 1) % len(ekeys)]][0]
        for f in forms:
            body = f.format(X=x, G=g, Y=y)
            add(f"Select(EventDataset('ds'), lambda e: {body})")
        add(f"Select(Where(EventDataset('ds'), lambda e: {g}), lambda e: ({x}, e.PRIM('A').Count()))")
        add(f"Select(Where(EventDataset('ds'), lambda e: {g} and {x} > 1.5), lambda e: {x})")
        add(f"Select(EventDataset('ds'), lambda e: e.PRIM('A').Where(lambda j: {g}).Select(lambda j: {x} + j.pt()))")
    jkeys = list(partial_j)
    for i, (k, (x, g)) in enumerate(partial_j.items()):
        y = partial_j[jkeys[(i + 1) % len(jkeys)]][0]
        for f in forms:
            body = f.format(X=x, G=g, Y=y)
            add(f"Select(EventDataset('ds'), lambda e: e.PRIM('A').Select(lambda j: {body}))")
        add(f"Select(EventDataset('ds'), lambda e: e.PRIM('A').Where(lambda j: {g}).Select(lambda j: {x}))")
        add(f"Select(EventDataset('ds'), lambda e: e.PRIM('A').Where(lambda j: {g} and {x} > 1.5).Count())")
        if "e.SEC" not in x:
            add(f"Select(SelectMany(EventDataset('ds'), lambda e: e.PRIM('A')).Where(lambda j: {g}), lambda j: {x})")
    # element values / filters that do NOT depend on their own loop variable (an outer variable, a constant, an
    # event-level value): the per-element statement must still run once per surviving element, inside the filters
    bodies = ["j.pt()", "1", "1.5", "e.PRIM('A').Count()", "j.nTrk()"]
    filters = ["", ".Where(lambda t: t.pt() > 1.5)", ".Where(lambda t: j.pt() > 1.5)", ".Where(lambda t: t.pt() > j.pt())"]
    terms = [".First()", ".Sum()", ".Count()", "", ".Aggregate(0.0, lambda a, x: a + x * 2)"]
    for bi, b in enumerate(bodies):
        for fi, f in enumerate(filters):
            for ti, t in enumerate(terms):
                if tier == "quick" and (bi + fi + ti) % 2 and not (bi == 0 and ti == 0):
                    continue
                add(f"Select(EventDataset('ds'), lambda e: e.PRIM('A').Select(lambda j: e.SEC('B'){f}.Select(lambda t: {b}){t}))", tags=("loopfree",))
    for b in ("1", "1.5", "e.SEC('B').Count()"):
        for f in ("", ".Where(lambda j: j.pt() > 1.5)"):
            for t in (".First()", ".Sum()", ""):
                add(f"Select(EventDataset('ds'), lambda e: e.PRIM('A'){f}.Select(lambda j: {b}){t})", tags=("loopfree",))
    add("Select(EventDataset('ds'), lambda e: e.PRIM('A').Select(lambda j: j.vals().Where(lambda v: v > 1.5).Select(lambda v: j.pt()).First()))", tags=("loopfree",))
    add("Select(EventDataset('ds'), lambda e: e.PRIM('A').Select(lambda j: j.vals().Select(lambda v: j.pt()).Sum()))", tags=("loopfree",))
    add("Select(SelectMany(EventDataset('ds'), lambda e: e.PRIM('A')), lambda j: j.vals().Where(lambda v: v > j.pt()).Select(lambda v: j.eta()).First())", tags=("loopfree",))
    if backend in ("cms_aod", "cms_miniaod"):
        m = "globalTrack"
        cm = "Muons"
        nq = [
            f"Select(EventDataset('ds'), lambda e: e.{cm}('A').Where(lambda m: isNonnull(m.{m}())).Select(lambda m: m.{m}().pt()))",
            f"Select(EventDataset('ds'), lambda e: e.{cm}('A').Select(lambda m: isNonnull(m.{m}()) and m.{m}().pt() > 1))",
            f"Select(EventDataset('ds'), lambda e: e.{cm}('A').Select(lambda m: m.{m}().pt() if isNonnull(m.{m}()) else 0.0))",
            f"Select(EventDataset('ds'), lambda e: e.{cm}('A').Where(lambda m: isNonnull(m.{m}()) and m.{m}().pt() > 1).Count())",
            f"Select(EventDataset('ds'), lambda e: e.{cm}('A').Select(lambda m: (not isNonnull(m.{m}())) or m.{m}().pt() > 1))",
            f"Select(SelectMany(EventDataset('ds'), lambda e: e.{cm}('A')).Where(lambda m: isNonnull(m.{m}())), lambda m: m.{m}().eta())",
            f"Select(EventDataset('ds'), lambda e: e.{cm}('A').Select(lambda m: isNonnull(m.{m}())))",
        ]
        for q in nq:
            out.append(make_program(q, backend))
    return out


# ------------------------------------------------------------------ C12: math function table
def c12_programs(backend, names=None):
    from . import mathfn
    v = VOCAB[backend]
    P = v["prim"]
    out = []
    for fn in (names or mathfn.DOCUMENTED):
        if fn in mathfn.NON_NUMERIC_SIGNATURE:
            continue
        ar = mathfn.ARITY.get(fn, 1)
        int_second = fn in ("ldexp", "scalbn", "scalbln")
        args = ["j.pt()", "j.eta()", "j.phi()"][:ar]
        if int_second:
            args[1] = "j.nTrk()"
        call = f"{fn}({', '.join(args)})"
        iargs = list(args)
        iargs[0] = "j.nTrk()"
        icall = f"{fn}({', '.join(iargs)})"
        # nested: the function as argument of another documented function and with a documented function as its argument
        inner = list(args)
        inner[0] = "fabs(j.pt())"
        nest_in = f"{fn}({', '.join(inner)})"
        allint = f"{fn}({', '.join(['j.nTrk()', '2', '3'][:ar])})"
        lit_forms = []
        for li, lits in enumerate((["0.5", "1.5", "2.5"], ["2.5", "0.5", "1.5"], ["-2.5", "1.5", "0.5"], ["2", "3", "1"])):
            la = lits[:ar]
            if int_second and len(la) > 1:
                la[1] = "2"
            lit_forms.append((f"{fn}({', '.join(la)}) * j.pt() + 1", f"literal-args{li}"))
        for form, tag in [(call, "standalone"), (f"{call} * 2 + 1", "arith"), (f"{call} > 0.5", "compare")] + lit_forms + [
                          (icall, "intarg"), (f"1.5 - {call} / 2", "arith2"), (f"sqrt({call})", "nested-outer"), (nest_in, "nested-inner"),
                          (allint, "allint"), (f"{allint} / 2", "allint-div")]:
            q = f"Select(EventDataset('ds'), lambda e: e.{P}('A').Select(lambda j: {form}))"
            out.append(make_program(q, backend, label=fn, tags=("math:" + fn, tag)))
    q = f"Select(EventDataset('ds'), lambda e: e.{P}('A').Select(lambda j: j.pt() ** 2))"
    out.append(make_program(q, backend, label="**", tags=("math:pow", "operator")))
    if True:
        # documented names whose C signature has a pointer / string parameter: no numeric call can be valid C++ (known finding)
        out.append(make_program(f"Select(EventDataset('ds'), lambda e: e.{P}('A').Select(lambda j: remquo(j.pt(), j.eta())))", backend, label="remquo", tags=("math:remquo", "signature")))
        out.append(make_program(f"Select(EventDataset('ds'), lambda e: e.{P}('A').Select(lambda j: nan(j.pt())))", backend, label="nan", tags=("math:nan", "signature")))
    return out


# ------------------------------------------------------------------ C13: operator x operand-kind table
OPERAND = {"intlit": "2", "intcount": "e.PRIM('A').Count()", "intm": "j.nTrk()", "float": "j.ptf()", "double": "j.pt()", "bool": "j.isGood()",
           "fltwhole": "2.0", "fltlit": "2.5"}
LITERAL_KINDS = ("intlit", "fltwhole", "fltlit")


def c13_programs(backend, tier):
    v = VOCAB[backend]
    P = v["prim"]
    out = []

    def add(expr, tags):
        q = f"Select(EventDataset('ds'), lambda e: e.PRIM('A').Select(lambda j: {expr}))".replace("PRIM", P)
        out.append(make_program(q, backend, tags=tags))
    ops = ["+", "-", "*", "/", "%", "**"]
    for op in ops:
        for ka, a in OPERAND.items():
            for kb, b in OPERAND.items():
                if ka in LITERAL_KINDS and kb in LITERAL_KINDS:
                    continue
                if op == "%" and (ka in ("fltwhole", "fltlit") or kb in ("fltwhole", "fltlit")):
                    continue            # '%' with a real operand is KF-mod-real-operand whatever the literal
                add(f"{a} {op} {b}", ("binop", op, ka, kb))
    # aggregate seeds that are computed by the query itself (known finding KF-aggregate-computed-seed)
    for seed in ("e.PRIM('A').Count()", "e.PRIM('A').Count() + 1", "e.PRIM('A').Select(lambda k: k.pt()).Sum()"):
        q = f"Select(EventDataset('ds'), lambda e: e.PRIM('A').Select(lambda j: j.pt()).Aggregate({seed}, lambda acc, v: acc + v))".replace("PRIM", P)
        out.append(make_program(q, backend, tags=("aggregate", "computed-seed")))
    # a seed expression that the query uses again after the aggregate (bound once by a lambda): it keeps its own type and value
    for expr in ("(lambda n: (j.vals().Aggregate(n, lambda acc, v: acc + v), n / 2, n))(j.nTrk())",
                 "(lambda n: (j.vals().Aggregate(n, lambda acc, v: acc + v * 2) + n, n))(j.nTrk())",
                 "(lambda n: (n / 2, j.ivals().Aggregate(n, lambda acc, v: acc + v / 2), n))(j.nTrk())"):
        q = f"Select(SelectMany(EventDataset('ds'), lambda e: e.PRIM('A')), lambda j: {expr})".replace("PRIM", P)
        out.append(make_program(q, backend, tags=("aggregate", "shared-seed")))
    # python builtins the documentation does not list: refusing is fine, accepting them with C++ integer semantics is not
    for expr in ("int(j.pt()) / 2", "int(j.pt())", "float(j.nTrk()) / 2", "max(j.pt(), 2)", "min(j.nTrk(), 2.5)", "max(j.pt(), j.eta())",
                 "round(j.pt()) / 2", "int(j.pt()) % 2", "abs(int(j.pt())) / 2"):
        add(expr, ("builtin", "optional"))
    # '**' is a real power: over the whole 32-bit range of an integer base (programs without other integer arithmetic)
    for expr in ("j.nTrk() ** 2", "j.nTrk() ** 3", "j.nTrk() ** 2 / 2.0", "(j.nTrk() ** 2) > 1.5", "j.nTrk() ** j.nTrk()"):
        add(expr, ("pow", "wideint"))
    for ka, a in OPERAND.items():
        if ka in LITERAL_KINDS:
            continue
        add(f"-{a}", ("unary", "-", ka))
        add(f"+{a}", ("unary", "+", ka))
        add(f"not {a}", ("unary", "not", ka))
    for cmp in ["<", "<=", ">", ">=", "==", "!="]:
        for ka, a in OPERAND.items():
            for kb, b in OPERAND.items():
                if ka in LITERAL_KINDS and kb in LITERAL_KINDS:
                    continue
                if tier == "quick" and (ka in ("fltwhole", "fltlit") or kb in ("fltwhole", "fltlit")) and cmp not in ("<", "=="):
                    continue
                if tier == "quick" and cmp in ("<=", ">=", "!=") and not (ka == "double" or kb == "double"):
                    continue
                add(f"{a} {cmp} {b}", ("compare", cmp, ka, kb))
    for ka, a in OPERAND.items():
        for kb, b in OPERAND.items():
            add(f"({a} if j.eta() > 0 else {b})", ("cond", ka, kb))
    # grouping: every pair of binary operators in both groupings keeps the query's grouping (shared with C01)
    for q in _precedence_family() + [
            "Select(EventDataset('ds'), lambda e: e.PRIM('A').Select(lambda j: j.pt() / (2 * 1000)))",
            "Select(EventDataset('ds'), lambda e: e.PRIM('A').Select(lambda j: j.nTrk() % (2 * 2)))",
            "Select(EventDataset('ds'), lambda e: e.PRIM('A').Select(lambda j: e.PRIM('A').Count() / (j.nTrk() * 2 + 1)))",
            "Select(EventDataset('ds'), lambda e: e.PRIM('A').Select(lambda j: j.pt() - (j.eta() - (j.phi() - 1))))",
            "Select(EventDataset('ds'), lambda e: e.PRIM('A').Select(lambda j: j.pt() / (j.eta() / (j.phi() / 3))))",
            "Select(EventDataset('ds'), lambda e: e.PRIM('A').Select(lambda j: 2 ** (j.nTrk() ** 2) - (1 - j.pt())))"]:
        out.append(make_program(q.replace("PRIM", P), backend, tags=("precedence",)))
    # "a conditional yields its arm's value" when the test / an arm needs statements of its own (First, filters, aggregates)
    for expr in ("1 if e.PRIM('A').First().pt() > 1.5 else 2",
                 "e.PRIM('A').First().pt() if e.PRIM('A').Where(lambda j: j.pt() > 1.5).First().eta() < 0.25 else -1.0",
                 "1.5 if e.PRIM('A').Where(lambda j: j.pt() > 1.5).Count() > 1 else e.PRIM('A').Count()",
                 "(1 if e.PRIM('A').First().pt() > 1.5 else 2) + (3 if e.PRIM('A').Count() > 1 else 4)",
                 "e.PRIM('A').Select(lambda j: j.pt()).Sum() if e.PRIM('A').Select(lambda j: j.eta()).Sum() > 0 else e.PRIM('A').Count()"):
        q = f"Select(Where(EventDataset('ds'), lambda e: e.PRIM('A').Count() > 0), lambda e: {expr})".replace("PRIM", P)
        out.append(make_program(q, backend, tags=("cond", "deep-test")))
    for expr in ("1 if j.vals().First() > 1.5 else 2", "j.pt() if j.vals().Where(lambda v: v > 1.5).Count() > 0 else j.eta()",
                 "(j.vals().First() if j.vals().Count() > 1 else 0.5) * 2", "j.nTrk() if j.vals().Sum() > 1.5 else j.nTrk() + 1"):
        q = f"Select(EventDataset('ds'), lambda e: e.PRIM('A').Where(lambda j: j.vals().Count() > 0).Select(lambda j: {expr}))".replace("PRIM", P)
        out.append(make_program(q, backend, tags=("cond", "deep-test")))
    # aggregates: accumulators at least as wide as what is folded in
    elems = {"intm": "j.nTrk()", "float": "j.ptf()", "double": "j.pt()", "mixed": "j.nTrk() + j.pt()", "divi": "j.nTrk() / 2"}
    for ke, x in elems.items():
        for agg in ("Sum()", "Max()", "Min()"):
            q = f"Select(EventDataset('ds'), lambda e: e.{P}('A').Select(lambda j: {x}).{agg})"
            out.append(make_program(q, backend, tags=("agg", agg, ke)))
        for ks, seed in (("int", "0"), ("double", "0.0"), ("int1", "1")):
            q = f"Select(EventDataset('ds'), lambda e: e.{P}('A').Select(lambda j: {x}).Aggregate({seed}, lambda acc, x: acc + x))"
            out.append(make_program(q, backend, tags=("agg", "Aggregate", ks, ke)))
            q = f"Select(EventDataset('ds'), lambda e: e.{P}('A').Select(lambda j: {x}).Aggregate({seed}, lambda acc, x: acc + x * 2))"
            out.append(make_program(q, backend, tags=("agg", "Aggregate2", ks, ke)))
    return out


def cpp_function_md(name, args, code, ret="double", result="result", method_object=None, instance_object=None, collection=False):
    d = {"metadata_type": "add_cpp_function", "name": name, "include_files": [], "arguments": list(args), "code": list(code),
         "result_name": result, "return_type": ret}
    if method_object:
        d["method_object"] = method_object
        d["instance_object"] = instance_object or "obj"
    if collection:
        d["return_is_collection"] = True
    return d


def c05_extra(backend):
    "Programs whose values come from user C++ (opaque to the translator)."
    import z3
    from .model import Num, real
    v = VOCAB[backend]
    P = v["prim"]
    out = []

    def prog(q, fns):
        dm = datamodel_for(q, backend)
        for f in fns:
            dm.cpp_functions.append(f)
        return Program(with_metadata(q, dm), backend, dm, src=q, tags=("cppfn",))
    f1 = cpp_function_md("twice", ["x"], ["double result = x * 2;"])
    f1["ref_lambda"] = lambda ref, a, g: Num("double", real(a[0]) * 2)
    f1["py_lambda"] = lambda cref, a: ("double", float(a[0][1]) * 2)
    f2 = cpp_function_md("addmul", ["x", "y"], ["auto t = x + y;", "double result = t * 3;"])
    f2["ref_lambda"] = lambda ref, a, g: Num("double", (real(a[0]) + real(a[1])) * 3)
    f2["py_lambda"] = lambda cref, a: ("double", (float(a[0][1]) + float(a[1][1])) * 3)
    out.append(prog(f"Select(EventDataset('ds'), lambda e: e.{P}('A').Select(lambda j: twice(j.pt())))", [f1]))
    out.append(prog(f"Select(EventDataset('ds'), lambda e: e.{P}('A').Select(lambda j: twice(j.pt()) + twice(j.eta())))", [f1]))
    out.append(prog(f"Select(EventDataset('ds'), lambda e: e.{P}('A').Where(lambda j: twice(j.pt()) > 3).Select(lambda j: addmul(j.eta(), j.pt())))", [f1, f2]))
    out.append(prog(f"Select(EventDataset('ds'), lambda e: e.{P}('A').Select(lambda j: addmul(j.eta(), twice(j.pt()))).Sum())", [f1, f2]))
    out.append(prog(f"Select(SelectMany(EventDataset('ds'), lambda e: e.{P}('A')), lambda j: (twice(j.pt()), j.eta()))", [f1]))
    return out


# ------------------------------------------------------------------ C18: several literals in one query
def c18_programs(backend):
    """Equal-valued literals of different kind in ONE query (2 / 2.0, 1 / 1.0 / True, 0 / 0.0 / False), in
    both orders and several positions: each must keep its own value and kind."""
    v = VOCAB[backend]
    P = v["prim"]
    groups = [("2", "2.0"), ("1", "1.0"), ("1", "True"), ("1.0", "True"), ("0", "0.0"), ("0", "False"), ("3", "3.0"), ("10", "10.0"), ("1000", "1000.0")]
    out = []

    def add(q):
        out.append(make_program(q.replace("PRIM", P), backend, tags=("literals",)))
    for a, b in groups:
        for x, y in ((a, b), (b, a)):
            if y not in ("0", "0.0", "False"):
                if x in ("1", "1.0", "2", "2.0"):
                    add(f"Select(Where(EventDataset('ds'), lambda e: e.PRIM('A').Count() >= {x}), lambda e: e.PRIM('A').Count() / {y})")
                if x != "True":
                    add(f"Select(Where(EventDataset('ds'), lambda e: e.PRIM('A').Select(lambda j: j.pt()).Sum() >= {x}), lambda e: e.PRIM('A').Count() / {y})")
                add(f"Select(EventDataset('ds'), lambda e: e.PRIM('A').Select(lambda j: (j.nTrk() + {x}) / {y}))")
                add(f"Select(EventDataset('ds'), lambda e: e.PRIM('A').Where(lambda j: j.pt() > {x}).Select(lambda j: j.nTrk() / {y}))")
            add(f"Select(SelectMany(EventDataset('ds'), lambda e: e.PRIM('A')), lambda j: (j.nTrk() + {x}, j.nTrk() + {y}))")
            add(f"Select(EventDataset('ds'), lambda e: e.PRIM('A').Select(lambda j: j.nTrk() * {x} + j.nTrk() * {y}))")
            add(f"Select(EventDataset('ds'), lambda e: ({x}, {y}, e.PRIM('A').Count()))")
            add(f"Select(EventDataset('ds'), lambda e: e.PRIM('A').Select(lambda j: {x} if j.pt() > {y} else j.nTrk()))")
    # floats whose shortest repr needs 16-17 significant digits, extreme magnitudes, exponent notation: the literal IS the column
    # (no arithmetic), so the replay compares the printed doubles exactly ('exact')
    hard = ["0.30000000000000004", "0.3333333333333333", "1234567890123456.0", "9007199254740994.0", "1.7976931348623157e+308",
            "5e-324", "2.2250738585072014e-308", "1e+16", "1e+22", "123456789.12345679", "1e-05", "6.02214076e+23", "0.1", "2.5", "100000.0",
            "1e-07", "4.35e-12", "-0.30000000000000004", "-1.7976931348623157e+308"]
    for k in hard:
        for tags in ((("literals", "exact"),) if not k.startswith("-") else (("literals", "exact"), ("literals", "exact", "fold_neg"))):
            out.append(make_program(f"Select(EventDataset('ds'), lambda e: {k})", backend, tags=tags))
            out.append(make_program(f"Select(EventDataset('ds'), lambda e: e.PRIM('A').Select(lambda j: {k}))".replace("PRIM", P), backend, tags=tags))
            out.append(make_program(f"Select(EventDataset('ds'), lambda e: ({k}, 1, e.PRIM('A').Count()))".replace("PRIM", P), backend, tags=tags))
    # strings with sequences that mean something to C++ / to a line-based emitter, in the positions whose text is pasted into a
    # verbatim C++ statement (bank name; attribute name on ATLAS); the string must arrive character for character
    curated = ["a // b", "root://x//y", " //", "a /* b", "*/", "a;b", "a; //", "%d %s", "{{x}}", "{% y %}", "#include", "a\\", "??/", "a\"b", "\\n", "'", "a  b", " lead", "trail ", "//", "/",
               # characters outside ASCII: the file on disk must carry them (UTF-8), not an escape that denotes other bytes
               "Jets_\u00b5", "\u00e9t\u00e9", "\u00ff", "\u0080", "\u03c0\u03c4", "\u65e5\u672c", "\U0001f600x", "a\x7fb"]
    for st in curated:
        lit = repr(st)
        out.append(make_program(f"Select(EventDataset('ds'), lambda e: e.PRIM({lit}).Count())".replace("PRIM", P), backend, tags=("literals", "string")))
        out.append(make_program(f"Select(EventDataset('ds'), lambda e: (e.PRIM({lit}).Count(), e.PRIM('plain').Select(lambda j: j.pt())))".replace("PRIM", P), backend, tags=("literals", "string")))
        if backend == "atlas":
            out.append(make_program(f"Select(EventDataset('ds'), lambda e: e.PRIM('A').Select(lambda j: j.getAttributeFloat({lit})))".replace("PRIM", P), backend, tags=("literals", "string")))
            out.append(make_program(f"Select(EventDataset('ds'), lambda e: e.PRIM('A').Select(lambda j: j.getAttributeFloat({lit}) + j.getAttributeFloat('other')))".replace("PRIM", P), backend, tags=("literals", "string")))
    for tn, cols in (("tr\u00e9\u00e9_\u00b5", ("pt_\u00b5", "n\u00e9")), ("\u03c0", ("\u65e5", "\u00ff"))):
        out.append(make_program(f"ResultTTree(Select(EventDataset('ds'), lambda e: (e.PRIM('A').Select(lambda j: j.pt()), e.PRIM('A').Count())), {cols!r}, {tn!r}, 'f.root')".replace("PRIM", P),
                                backend, tags=("literals", "string", "names")))
    # negative literals, as source text (-5 = unary minus of 5) and as the single constant node a captured python
    # variable becomes ('fold_neg'), in every operator context: the literal must not fuse with what precedes it
    negs = ["-5", "-1.5", "-0.0", "-2147483647", "-2147483648", "-1e-05"]
    ctx = ["j.pt() - {K}", "{K} - j.pt()", "j.pt() + {K}", "j.pt() * {K}", "j.pt() / {K}", "-{K}", "j.nTrk() - {K}", "{K} - {K}",
           "(j.pt() - {K}) - {K}", "{K} if j.pt() > {K} else j.pt() - {K}", "abs({K}) - {K}"]
    for k in negs:
        for c in ctx:
            if k == "-0.0" and "/" in c:
                continue
            for tags in (("literals", "negative"), ("literals", "negative", "fold_neg")):
                out.append(make_program(f"Select(EventDataset('ds'), lambda e: e.PRIM('A').Select(lambda j: {c.replace('{K}', k)}))".replace("PRIM", P), backend, tags=tags))
        for tags in (("literals", "negative"), ("literals", "negative", "fold_neg")):
            out.append(make_program(f"Select(EventDataset('ds'), lambda e: e.PRIM('A').Where(lambda j: j.pt() - {k} > {k}).Count())".replace("PRIM", P), backend, tags=tags))
    return out


# ------------------------------------------------------------------ C10: declared signatures x chains
def c10_programs(backend):
    v = VOCAB[backend]
    P, E = v["prim"], v["prim_cls"]
    T = "myns::Thing"
    out = []

    def prog(q, decls, enums=None, tags=()):
        dm = DataModel(backend)
        for cls, ms in decls:
            dm.declare_method(cls, ms)
        for full, (ns, vals) in (enums or {}).items():
            dm.enums[full] = (ns, vals)
        q = q.replace("PRIM", P)
        out.append(Program(with_metadata(q, dm), backend, dm, src=q, tags=tuple(tags)))
    obj = {0: MethodSpec("obj0", TObj(T, 0)), 1: MethodSpec("obj1", TObj(T, 1)), 2: MethodSpec("obj2", TObj(T, 2))}
    for p_, ms in obj.items():
        for d in (0, 1, 2):
            val = MethodSpec("val", TNum("double"), deref_count=d)
            prog(f"Select(EventDataset('ds'), lambda e: e.PRIM('A').Select(lambda j: j.{ms.name}().val()))", [(E, ms), (T, val)], tags=(f"p{p_}", f"d{d}"))
            prog(f"Select(SelectMany(EventDataset('ds'), lambda e: e.PRIM('A')), lambda j: j.{ms.name}().val() + j.pt())", [(E, ms), (T, val)], tags=(f"p{p_}", f"d{d}"))
        for kind in ("int", "float", "bool"):
            prog(f"Select(EventDataset('ds'), lambda e: e.PRIM('A').Select(lambda j: j.{ms.name}().k()))", [(E, ms), (T, MethodSpec("k", TNum(kind)))], tags=(f"p{p_}", kind))
        nxt = MethodSpec("nxt", TObj(T, 1))
        prog(f"Select(EventDataset('ds'), lambda e: e.PRIM('A').Select(lambda j: j.{ms.name}().nxt().x()))", [(E, ms), (T, nxt)], tags=(f"p{p_}", "chain2"))
        prog(f"Select(EventDataset('ds'), lambda e: e.PRIM('A').Select(lambda j: j.{ms.name}().nxt().nxt().x() + j.{ms.name}().x()))", [(E, ms), (T, nxt)], tags=(f"p{p_}", "chain3"))
        prog(f"Select(EventDataset('ds'), lambda e: e.PRIM('A').Where(lambda j: j.{ms.name}().x() > 1.5).Select(lambda j: j.{ms.name}().y()))", [(E, ms), (T, MethodSpec("y", TNum("int")))], tags=(f"p{p_}", "where"))
    # collections: by value / by pointer, of values / objects / object pointers, custom collection types
    colls = {
        "cv": TColl("std::vector<float>", TNum("float"), 0),
        "cvi": TColl("std::vector<int>", TNum("int"), 0),
        "cp": TColl("std::vector<float>", TNum("float"), 1),
        "co": TColl(f"std::vector<{T}>", TObj(T, 0), 0),
        "cop": TColl(f"std::vector<{T}*>", TObj(T, 1), 0),
        "cc": TColl("myns::ThingColl", TObj(T, 1), 0),
        "ccp": TColl("myns::ThingColl", TObj(T, 1), 1),
    }
    for name, t in colls.items():
        ms = MethodSpec(name, t)
        num = isinstance(t.elem, TNum)
        el = "v" if num else "v.x()"
        prog(f"Select(EventDataset('ds'), lambda e: e.PRIM('A').Select(lambda j: j.{name}().Select(lambda v: {el})))", [(E, ms)], tags=(name, "select"))
        prog(f"Select(EventDataset('ds'), lambda e: e.PRIM('A').Select(lambda j: j.{name}().Count()))", [(E, ms)], tags=(name, "count"))
        prog(f"Select(EventDataset('ds'), lambda e: e.PRIM('A').SelectMany(lambda j: j.{name}()).Select(lambda v: {el}))", [(E, ms)], tags=(name, "selectmany"))
        prog(f"Select(EventDataset('ds'), lambda e: e.PRIM('A').Where(lambda j: j.{name}().Count() > 0).Select(lambda j: j.{name}().First(){'' if num else '.x()'}))", [(E, ms)], tags=(name, "first"))
        prog(f"Select(EventDataset('ds'), lambda e: e.PRIM('A').Where(lambda j: j.{name}().Count() > 1).Select(lambda j: j.{name}()[1]{'' if num else '.x()'}))", [(E, ms)], tags=(name, "index"))
        if num:
            prog(f"Select(EventDataset('ds'), lambda e: e.PRIM('A').Select(lambda j: j.{name}()))", [(E, ms)], tags=(name, "column"))
            prog(f"Select(EventDataset('ds'), lambda e: e.PRIM('A').Select(lambda j: j.{name}().Sum()))", [(E, ms)], tags=(name, "sum"))
        else:
            prog(f"Select(EventDataset('ds'), lambda e: e.PRIM('A').Select(lambda j: j.{name}().Where(lambda t: t.x() > 1.5).Select(lambda t: t.k())))", [(E, ms), (T, MethodSpec("k", TNum("int")))], tags=(name, "where"))
            prog(f"Select(EventDataset('ds'), lambda e: e.PRIM('A').Select(lambda j: j.{name}().Select(lambda t: t.nxt().x())))", [(E, ms), (T, MethodSpec("nxt", TObj(T, 1)))], tags=(name, "chain"))
    # collection returned by a method of a returned object
    prog("Select(EventDataset('ds'), lambda e: e.PRIM('A').Select(lambda j: j.obj1().cv().Select(lambda v: v * 2)))",
         [(E, obj[1]), (T, MethodSpec("cv", colls["cv"]))], tags=("chain-coll",))
    # declared tree_type: a leaf column (scalar, per-event array, nested array, tuple/dict member, First()) carries the tree type;
    # inside arithmetic the value has its return type (value-preserving widenings only, so rows are unaffected)
    for mname, rkind, tt in (("ptf", "float", "double"), ("nTrk", "int", "double"), ("isGood", "bool", "int"), ("nHits", "int", "long")):
        if tt == "long":
            continue     # 'long' is not a kind the C++ subset's schema knows; kept out of the claim
        ms = MethodSpec(mname, TNum(rkind), tree_type=tt)
        S_ = v["sec"]
        forms = [
            f"Select(SelectMany(EventDataset('ds'), lambda e: e.PRIM('A')), lambda j: j.{mname}())",
            f"Select(EventDataset('ds'), lambda e: e.PRIM('A').Select(lambda j: j.{mname}()))",
            f"Select(EventDataset('ds'), lambda e: e.PRIM('A').Select(lambda j: e.{S_}('B').Select(lambda t: j.{mname}())))",
            f"Select(EventDataset('ds'), lambda e: (e.PRIM('A').Select(lambda j: j.{mname}()), e.PRIM('A').Count()))",
            f"Select(EventDataset('ds'), lambda e: {{'a': e.PRIM('A').Select(lambda j: j.pt()), 'b': e.PRIM('A').Select(lambda j: j.{mname}())}})",
            f"Select(SelectMany(EventDataset('ds'), lambda e: e.PRIM('A')), lambda j: (j.{mname}(), j.pt()))",
            f"Select(Where(EventDataset('ds'), lambda e: e.PRIM('A').Count() > 0), lambda e: e.PRIM('A').First().{mname}())",
            f"Select(EventDataset('ds'), lambda e: e.PRIM('A').Where(lambda j: j.pt() > 1.5).Select(lambda j: j.{mname}()))",
        ]
        for q in forms:
            prog(q, [(E, ms)], tags=("tree_type", mname))
    # an EXPRESSION over a value with a declared tree type is an ordinary expression: its column has the kind (and the value) the
    # expression has - the tree type belongs to the bare value as a leaf column, not to what is computed from it
    for mname, rkind, tt in (("w", "double", "int"), ("nTrk", "int", "double"), ("ptf", "float", "int")):
        ms = MethodSpec(mname, TNum(rkind), tree_type=tt)
        for expr in (f"j.{mname}() * 2.5", f"j.{mname}() + j.pt()", f"j.pt() - j.{mname}()", f"-j.{mname}()", f"j.{mname}() / 2",
                     f"(j.{mname}() if j.pt() > 1.5 else 0.5)", f"j.{mname}() + 1"):
            prog(f"Select(EventDataset('ds'), lambda e: e.PRIM('A').Select(lambda j: {expr}))", [(E, ms)], tags=("tree_type_arith", mname))
        prog(f"Select(EventDataset('ds'), lambda e: e.PRIM('A').Select(lambda j: j.{mname}() * 0.5).Sum())", [(E, ms)], tags=("tree_type_arith", mname))
        # ... nor to an accumulator that is merely SEEDED with such a value
        prog(f"Select(EventDataset('ds'), lambda e: e.PRIM('A').Select(lambda j: j.fvals().Aggregate(j.{mname}(), lambda a, v: a + v)))",
             [(E, ms), (E, MethodSpec("fvals", TColl("std::vector<float>", TNum("float"), 0)))], tags=("tree_type_arith", mname, "seed"))
    # enums: argument, comparison
    en = {"xAOD.Jet.Color": ("xAOD.Jet", ["Red", "Blue"])}
    prog("Select(EventDataset('ds'), lambda e: e.PRIM('A').Where(lambda j: j.color() == xAOD.Jet.Color.Red).Count())", [(E, MethodSpec("color", TNum("int")))], enums=en, tags=("enum", "compare"))
    prog("Select(EventDataset('ds'), lambda e: e.PRIM('A').Select(lambda j: j.weight(xAOD.Jet.Color.Blue)))", [], enums=en, tags=("enum", "argument"))
    prog("Select(EventDataset('ds'), lambda e: e.PRIM('A').Select(lambda j: j.weight(xAOD.Jet.Color.Blue) if j.color() != xAOD.Jet.Color.Red else 0.0))", [(E, MethodSpec("color", TNum("int")))], enums=en, tags=("enum", "both"))
    en1 = {"Top.Kind": ("Top", ["A", "B"])}
    prog("Select(EventDataset('ds'), lambda e: e.PRIM('A').Select(lambda j: j.weight(Top.Kind.B)))", [], enums=en1, tags=("enum", "1level"))
    # deeper namespaces: every qualifier must survive
    for depth, ns in ((3, "xAOD.JetAttribute.Detail"), (4, "a.bb.ccc.dddd")):
        enn = {ns + ".Algo": (ns, ["AntiKt", "CamKt"])}
        prog(f"Select(EventDataset('ds'), lambda e: e.PRIM('A').Where(lambda j: j.algo() == {ns}.Algo.AntiKt).Count())", [(E, MethodSpec("algo", TNum("int")))], enums=enn, tags=("enum", f"{depth}level", "compare"))
        prog(f"Select(EventDataset('ds'), lambda e: e.PRIM('A').Select(lambda j: j.weight({ns}.Algo.CamKt)))", [], enums=enn, tags=("enum", f"{depth}level", "argument"))
    # an enum value as an output column / inside a tuple (the column is declared with the enum's C++ type)
    prog("Select(EventDataset('ds'), lambda e: e.PRIM('A').Select(lambda j: xAOD.Jet.Color.Red))", [], enums=en, tags=("enum", "output"))
    prog("Select(SelectMany(EventDataset('ds'), lambda e: e.PRIM('A')), lambda j: (xAOD.Jet.Color.Blue, j.pt()))", [], enums=en, tags=("enum", "output"))
    # collections returned through two pointer levels
    for name, t in (("cpp2", TColl("std::vector<float>", TNum("float"), 2)), ("cop2", TColl(f"std::vector<{T}*>", TObj(T, 1), 2))):
        ms = MethodSpec(name, t)
        num = isinstance(t.elem, TNum)
        el = "v" if num else "v.x()"
        prog(f"Select(EventDataset('ds'), lambda e: e.PRIM('A').Select(lambda j: j.{name}().Count()))", [(E, ms)], tags=(name, "count"))
        prog(f"Select(EventDataset('ds'), lambda e: e.PRIM('A').Select(lambda j: j.{name}().Select(lambda v: {el})))", [(E, ms)], tags=(name, "select"))
        prog(f"Select(EventDataset('ds'), lambda e: e.PRIM('A').Where(lambda j: j.{name}().Count() > 1).Select(lambda j: j.{name}()[1]{'' if num else '.x()'}))", [(E, ms)], tags=(name, "index"))
    # a metadata declaration of a method the backend pre-declares (its default types) replaces the default
    if backend == "atlas":
        for p_ in (0, 1, 2):
            prog("Select(EventDataset('ds'), lambda e: e.TruthParticles('A').Select(lambda p: p.parent().x()))",
                 [("xAOD::TruthParticle", MethodSpec("parent", TObj(T, p_)))], tags=("redeclare-default", f"p{p_}"))
        prog("Select(EventDataset('ds'), lambda e: e.TruthParticles('A').Select(lambda p: p.prodVtx() / 2))",
             [("xAOD::TruthParticle", MethodSpec("prodVtx", TNum("int")))], tags=("redeclare-default", "int"))
        prog("Select(EventDataset('ds'), lambda e: e.TruthParticles('A').Select(lambda p: p.child()))",
             [("xAOD::TruthParticle", MethodSpec("child", TNum("int")))], tags=("redeclare-default", "int-column"))
    else:
        for mname, t in (("isPFMuon", TNum("int")), ("isPFIsolationValid", TNum("double")), ("globalTrack", TNum("int"))):
            prog(f"Select(EventDataset('ds'), lambda e: e.PRIM('A').Select(lambda j: j.{mname}()))", [(E, MethodSpec(mname, t))], tags=("redeclare-default", mname))
            prog(f"Select(EventDataset('ds'), lambda e: e.PRIM('A').Select(lambda j: j.{mname}() / 2))", [(E, MethodSpec(mname, t))], tags=("redeclare-default", mname, "div"))
        for p_ in (0, 1):
            prog("Select(EventDataset('ds'), lambda e: e.PRIM('A').Select(lambda j: j.pfIsolationR04().x() + j.globalTrack().k()))",
                 [(E, MethodSpec("pfIsolationR04", TObj(T, p_))), (E, MethodSpec("globalTrack", TObj(T, 1 - p_))), (T, MethodSpec("k", TNum("int")))], tags=("redeclare-default", f"p{p_}"))
    # two enums in sibling namespaces with a common prefix and equal value names
    en2 = {"xAOD.Jet.Color": ("xAOD.Jet", ["Red", "Blue"]), "xAOD.Track.Color": ("xAOD.Track", ["Red", "Green"])}
    prog("Select(EventDataset('ds'), lambda e: e.PRIM('A').Select(lambda j: j.weight(xAOD.Jet.Color.Red) + j.weight(xAOD.Track.Color.Red)))", [], enums=en2, tags=("enum", "siblings"))
    return out


# ------------------------------------------------------------------ C06: collections
def c06_programs(backend):
    from .model import BUILTIN, CollSpec
    out = []
    names = [n for n, s_ in BUILTIN[backend].items() if not s_.singleton]
    singles = [n for n, s_ in BUILTIN[backend].items() if s_.singleton]

    def add(q, tags=(), dm=None):
        dm = dm or datamodel_for(q, backend)
        out.append(Program(with_metadata(q, dm), backend, dm, src=q, tags=tuple(tags)))
    for n in names:
        add(f"Select(EventDataset('ds'), lambda e: e.{n}('bank1').Count())")
        add(f"Select(EventDataset('ds'), lambda e: e.{n}('bank1').Select(lambda x: x.pt()))")
        add(f"Select(SelectMany(EventDataset('ds'), lambda e: e.{n}('bank1')), lambda x: x.pt())")
        add(f"Select(EventDataset('ds'), lambda e: (e.{n}('b1').Count(), e.{n}('b1').Select(lambda x: x.pt())))", tags=("same-bank-twice",))
        add(f"Select(EventDataset('ds'), lambda e: (e.{n}('b1').Count(), e.{n}('b2').Count()))", tags=("two-banks",))
        add(f"Select(EventDataset('ds'), lambda e: e.{n}('b1').Select(lambda x: e.{n}('b2').Where(lambda y: y.pt() > x.pt()).Count()))", tags=("two-banks-nested",))
        # the collection bound to a lambda parameter: used twice, the first use inside a block that has closed before the second
        add(f"Select(Select(EventDataset('ds'), lambda e: e.{n}('b1')), lambda c: {{'sel': (c.Where(lambda x: x.pt() > 1.5).Count() if 1 > 0 else 0), 'all': c.Count()}})", tags=("bound-twice",))
        add(f"Select(Select(EventDataset('ds'), lambda e: e.{n}('b1')), lambda c: (c.Select(lambda x: x.pt()), c.Count(), c.Where(lambda x: x.pt() > 1.5).Select(lambda x: x.pt())))", tags=("bound-twice",))
        add(f"Select(Select(EventDataset('ds'), lambda e: e.{n}('b1')), lambda c: (c.Count() if c.Count() > 1 else -1, c.Select(lambda x: x.pt())))", tags=("bound-twice",))
        add(f"Select(EventDataset('ds'), lambda e: e.{n}('b1').Count() > 0 and e.{n}('b2').Count() > 0)", tags=("lazy",))
        add(f"Select(EventDataset('ds'), lambda e: e.{n}())", tags=("must_raise",))
        add(f"Select(EventDataset('ds'), lambda e: e.{n}('a', 'b').Count())", tags=("must_raise",))
        add(f"Select(EventDataset('ds'), lambda e: e.{n}(1).Count())", tags=("must_raise",))
    for a, b in zip(names, names[1:] + names[:1]):
        if a != b:
            add(f"Select(EventDataset('ds'), lambda e: (e.{a}('x').Count(), e.{b}('x').Count()))", tags=("two-collections-same-bank",))
            add(f"Select(EventDataset('ds'), lambda e: e.{a}('x').Select(lambda p: e.{b}('y').Where(lambda q: q.pt() > p.pt()).Count()))", tags=("two-collections",))
    for n in singles:
        add(f"Select(EventDataset('ds'), lambda e: e.{n}('EI').runNumber())")
        add(f"Select(EventDataset('ds'), lambda e: (e.{n}('EI').runNumber(), e.{names[0]}('A').Count()))")
        add(f"Select(EventDataset('ds'), lambda e: e.{names[0]}('A').Select(lambda j: j.pt() * e.{n}('EI').runNumber()))")
        add(f"Select(EventDataset('ds'), lambda e: e.{n}('EI').Select(lambda x: x.runNumber()))", tags=("must_raise",))
        add(f"Select(EventDataset('ds'), lambda e: e.{n}('EI').Count())", tags=("must_raise",))
    # metadata-declared collections
    mdt = {"atlas": "add_atlas_event_collection_info", "cms_aod": "add_cms_aod_event_collection_info", "cms_miniaod": "add_cms_miniaod_event_collection_info"}[backend]

    def declared(name, ctype, etype, elem_p, headers, libs=(), singleton=False, extra=None):
        md = {"metadata_type": mdt, "name": name, "include_files": list(headers), "container_type": ctype, "contains_collection": not singleton}
        if not singleton:
            md["element_type"] = etype
        if backend == "atlas":
            md["link_libraries"] = list(libs)
        if extra:
            md.update(extra)
        return CollSpec(name, ctype, None if singleton else etype, elem_p, singleton, tuple(headers), tuple(libs), declared_md=md)
    ep = 1 if backend == "atlas" else 0
    for name, tags in (("ForkJets", ("declared-new",)), (names[0], ("declared-replaces-builtin",))):
        dm = DataModel(backend)
        dm.declare_collection(declared(name, "my::ThingCollection", "my::Thing", ep, ["my/Thing.h"], ["myThingLib"]))
        add(f"Select(EventDataset('ds'), lambda e: e.{name}('bk').Select(lambda t: t.pt()))", tags=tags, dm=dm)
        dm = DataModel(backend)
        dm.declare_collection(declared(name, "my::ThingCollection", "my::Thing", ep, ["my/Thing.h"], ["myThingLib"]))
        add(f"Select(EventDataset('ds'), lambda e: (e.{name}('bk').Count(), e.{names[-1]}('other').Count()))", tags=tags, dm=dm)
    if backend == "atlas":
        dm = DataModel(backend)
        dm.declare_collection(declared("MyInfo", "my::Info", None, 0, ["my/Info.h"], ["myInfoLib"], singleton=True))
        add("Select(EventDataset('ds'), lambda e: e.MyInfo('info').value())", tags=("declared-singleton",), dm=dm)
    else:
        for ptr in (False, True):
            dm = DataModel(backend)
            dm.declare_collection(declared("PtrThings", "my::PtrThingCollection", "my::Thing", 1 if ptr else 0, ["my/Thing.h"], extra={"element_pointer": ptr}))
            add("Select(EventDataset('ds'), lambda e: e.PtrThings('bk').Select(lambda t: t.pt()))", tags=("element_pointer", str(ptr)), dm=dm)
            dm = DataModel(backend)
            dm.declare_collection(declared("PtrThings", "my::PtrThingCollection", "my::Thing", 1 if ptr else 0, ["my/Thing.h"], extra={"element_pointer": ptr}))
            add("Select(SelectMany(EventDataset('ds'), lambda e: e.PtrThings('bk')).Where(lambda t: t.pt() > 1.5), lambda t: t.eta())", tags=("element_pointer", str(ptr)), dm=dm)
    # a declaration for another backend is refused
    other = {"atlas": "add_cms_aod_event_collection_info", "cms_aod": "add_cms_miniaod_event_collection_info", "cms_miniaod": "add_atlas_event_collection_info"}[backend]
    dm = DataModel(backend)
    dm.extra_md.append({"metadata_type": other, "name": "Alien", "include_files": ["x.h"], "container_type": "a::B", "element_type": "a::C", "contains_collection": True})
    add(f"Select(EventDataset('ds'), lambda e: e.{names[0]}('A').Count())", tags=("must_raise", "other-backend"), dm=dm)
    return out


# ------------------------------------------------------------------ C09: grafts of unsupported constructs
def c09_programs(backend, tier):
    """Every unsupported construct grafted into every expression position of a set of host queries.
    All of them must be refused (tag must_raise)."""
    v = VOCAB[backend]
    P, S = v["prim"], v["sec"]
    num_hosts = [       # @N = a numeric expression position (j is an element of PRIM)
        "Select(EventDataset('ds'), lambda e: e.PRIM('A').Select(lambda j: @N))",
        "Select(EventDataset('ds'), lambda e: e.PRIM('A').Select(lambda j: j.pt() + @N))",
        "Select(EventDataset('ds'), lambda e: e.PRIM('A').Where(lambda j: @N > 1.5).Count())",
        "Select(EventDataset('ds'), lambda e: e.PRIM('A').Select(lambda j: (@N if j.pt() > 1 else 0.0)))",
        "Select(EventDataset('ds'), lambda e: e.PRIM('A').Select(lambda j: (1.0 if @N > 0 else 0.0)))",
        "Select(EventDataset('ds'), lambda e: e.PRIM('A').Select(lambda j: j.pt() > 1 and @N > 0))",
        "Select(EventDataset('ds'), lambda e: e.PRIM('A').Select(lambda j: abs(@N)))",
        "Select(EventDataset('ds'), lambda e: e.PRIM('A').Select(lambda j: @N).Sum())",
        "Select(EventDataset('ds'), lambda e: e.PRIM('A').Select(lambda j: e.SEC('B').Where(lambda t: t.pt() > @N).Count()))",
        "Select(SelectMany(EventDataset('ds'), lambda e: e.PRIM('A')), lambda j: (j.pt(), @N))",
        "Select(SelectMany(EventDataset('ds'), lambda e: e.PRIM('A')), lambda j: {'a': j.pt(), 'b': @N})",
        "Select(EventDataset('ds'), lambda e: e.PRIM('A').Select(lambda j: j.pt()).Aggregate(0.0, lambda acc, x: acc + @NX))",
    ]
    num_grafts = [      # expressions that cannot be translated; j (object), e (event) in scope
        "j.pt() // 2", "j.nTrk() << 1", "j.nTrk() >> 1", "j.nTrk() | 1", "j.nTrk() & 1", "j.nTrk() ^ 1", "j.pt() @ 2", "~j.nTrk()",
        "(1 < j.pt() < 10)", "(j.pt() in (1, 2))", "(j.pt() is None)", "(j.pt() not in (1, 2))",
        "j.vals()[0:2]", "j.vals()[1:]",
        "e.PRIM('A') + 1", "1 - e.PRIM('A')", "e.PRIM('A') * 2", "e.PRIM('A') / 2", "2 / e.PRIM('A')", "e.PRIM('A') % 2", "e.PRIM('A') ** 2",
        "j / 2", "2 / j", "j + 1", "j * 2", "j - j",
        "-e.PRIM('A')", "+e.PRIM('A')", "(not e.PRIM('A'))", "-j", "(not j)", "-j.vals()", "(e.PRIM('A') > 1)", "(1 == e.PRIM('A'))", "(j.vals() > 1)",
        "(e.PRIM('A').Select(lambda k: k.pt()) > 1)", "(e.PRIM('A') == e.PRIM('A'))",
        "('hi' if j.pt() > 1 else 'lo')", "(j.vals() if j.pt() > 1 else j.vals())", "(1.0 if j.pt() > 1 else 'lo')",
        "round(j.pt(), 2)", "sin(j.pt(), 1)", "sqrt()", "pow(j.pt())", "pow(j.pt(), 2, 3)", "atan2(j.pt())", "fma(j.pt(), 2)",
        "'a' / j.pt()", "j.pt() / 'a'", "'a' + j.pt()", "j.pt() * 'a'",
        "j.vals() + 1", "j.vals() / 2", "1 / j.vals()",
        "e.PRIM('A').Select(lambda k: k.pt()) * 2", "e.PRIM('A').Select(lambda k: k.pt()) / 2",
        "(j.pt(), j.eta()) + 1", "{'a': j.pt()} / 2",
        "e.PRIM('A').Select(lambda k: k.pt()).Aggregate(lambda acc, x: acc + x)",
        "e.PRIM('A').Select(lambda k: k.pt()).Aggregate(lambda x: x, lambda acc, x: acc + x)",
        "e.PRIM('A').Count().Select(lambda c: c + 1)", "j.pt().Where(lambda x: x > 1)", "j.pt().Count()", "j.pt().First()", "e.PRIM('A').Count().First()",
        "unknown_function(j.pt())", "j.pt().real", "math.sin(j.pt())",
        "j.pt(x=1)", "j.pt(1, scale=2)", "e.PRIM('A', kind='x').Count()",
        "j.pt().unknown()", "(lambda a, b: a + b)(j.pt())",
        "e.PRIM('A').Select(lambda a, b: a.pt()).Sum()", 
        "e.PRIM('A').Select().Count()",
        "3j", "None", "b'x'",
        # operands of the wrong kind: a real number as an index, a sequence / an object where a number is required
        "j.vals()[1.5]", "e.PRIM('A')[1.5].pt()", "j.vals()[j.pt()]", "sin(e.PRIM('A'))", "sqrt(j)", "abs(j.vals())", "pow(e.PRIM('A'), 2)",
        "(j > 1)", "(j == j)", "(j if j.pt() > 1 else j)", "(e.PRIM('A').First() if j.pt() > 1 else e.PRIM('A').First())",
        "Range(0, 2.5).Count()", "Range(0.5, 2).Count()", "Range(0, j.pt()).Count()",
    ]
    if backend == "atlas":
        num_grafts += ["(e.EventInfo('EI') > 1)", "-e.EventInfo('EI')", "(e.EventInfo('EI') if j.pt() > 1 else e.EventInfo('EI'))"]
        num_grafts += ["j.getAttribute('x')", "j.getAttributeFloat()", "j.getAttributeFloat('a', 'b')", "getAttributeFloat(j, 'a')", "DeltaR(j.eta(), j.phi())", "j.DeltaR(1, 2, 3, 4)"]
    else:
        num_grafts += ["isNonnull()", "isNonnull(j, j)"]
    out = []
    seen = set()

    def add(q, tags):
        q = q.replace("PRIM", P).replace("SEC", S)
        if q in seen:
            return
        seen.add(q)
        out.append(make_program(q, backend, tags=tags))
    hosts = num_hosts if tier == "thorough" else num_hosts[:7] + num_hosts[9:11]
    for h in hosts:
        for gft in num_grafts:
            if "@NX" in h:
                g2 = gft.replace("j.", "x.").replace("(j", "(x").replace(" j ", " x ").replace("j /", "x /").replace("/ j", "/ x")
                if "x.pt()" in g2 or "x.n" in g2 or "x.vals" in g2 or re.search(r"\bj\b", gft.replace("j.", "")):
                    continue        # x is a number in that host: method calls on it / object arithmetic grafts do not apply
                add(h.replace("@NX", g2), ("must_raise", "graft"))
            else:
                add(h.replace("@N", gft), ("must_raise", "graft"))
    # top-level shape errors
    tops = [
        "e.PRIM('A')",                                   # bare lambda is not a call
        "Select(EventDataset('ds'), lambda e: e.PRIM('A'))",                  # raw objects
        "Select(EventDataset('ds'), lambda e: e.PRIM('A').First())",
        "SelectMany(EventDataset('ds'), lambda e: e.PRIM('A'))",                 # raw objects, one row each
        "Select(SelectMany(EventDataset('ds'), lambda e: e.PRIM('A')), lambda j: (j.pt(), j))",
        "Select(EventDataset('ds'), lambda e: e)",
        # malformed metadata of the remaining kinds
        "Select(MetaData(EventDataset('ds'), {'metadata_type': 'docker', 'imagee': 'x/y:1'}), lambda e: e.PRIM('A').Count())",
        "Select(MetaData(MetaData(EventDataset('ds'), {'metadata_type': 'define_enum', 'namespace': 'xAOD.Jet', 'name': 'Color', 'values': ['Red', 'Blue']}), {'metadata_type': 'define_enum', 'namespace': 'xAOD.Jet', 'name': 'Color', 'values': ['Green']}), lambda e: e.PRIM('A').Count())",
        "Select(MetaData(EventDataset('ds'), {'metadata_type': 'inject_code', 'name': 'b', 'body_includes': 'a.h'}), lambda e: e.PRIM('A').Count())",
        "Select(MetaData(EventDataset('ds'), {'metadata_type': 'add_job_script', 'name': 'b', 'script': 'x = 1', 'depends_on': []}), lambda e: e.PRIM('A').Count())",
        "Select(MetaData(EventDataset('ds'), {'metadata_type': 'add_method_type_info', 'type_string': 'T', 'method_name': 'm', 'return_type': 'int', 'no_such_key': 1}), lambda e: e.PRIM('A').Count())",
        "Select(MetaData(EventDataset('ds'), {'metadata_type': 'add_method_type_info', 'type_string': 'T', 'method_name': 'm', 'return_type': 'int', 'return_type_element': 'float'}), lambda e: e.PRIM('A').Count())",
        "Select(MetaData(EventDataset('ds'), {'metadata_type': 'add_job_script', 'name': 'b', 'script': ['x = 1'], 'depends_on': [], 'depends': ['c']}), lambda e: e.PRIM('A').Count())",
        "Select(EventDataset('ds'), lambda e: (e.PRIM('A').Count(), e.PRIM('A')))",
        "Select(SelectMany(EventDataset('ds'), lambda e: e.PRIM('A')), lambda j: j)",
        "Where(EventDataset('ds'), lambda e: True)",
        "EventDataset('ds')",
        "Select(EventDataset('ds'), lambda e: e.PRIM('A').Select(lambda j: j.pt()).Select(lambda p: p.Count()))",
        "Select(EventDataset('ds'), lambda e: e.Nothing('A').Count())",
        "SelectMany(EventDataset('ds'), lambda e: e.PRIM('A').Count())",
        "Select(MetaData(EventDataset('ds'), {'metadata_type': 'no_such_type'}), lambda e: e.PRIM('A').Count())",
        "Select(MetaData(EventDataset('ds'), {'name': 'x'}), lambda e: e.PRIM('A').Count())",
        "Select(MetaData(EventDataset('ds'), {'metadata_type': 'add_method_type_info', 'type_string': 'T'}), lambda e: e.PRIM('A').Count())",
        "Select(MetaData(EventDataset('ds'), {'metadata_type': 'add_cpp_function', 'name': 'f'}), lambda e: e.PRIM('A').Count())",
        "Select(MetaData(EventDataset('ds'), {'metadata_type': 'inject_code', 'name': 'b', 'no_such_field': ['x']}), lambda e: e.PRIM('A').Count())",
        "Select(MetaData(EventDataset('ds'), {'metadata_type': 'add_job_script', 'name': 'b'}), lambda e: e.PRIM('A').Count())",
        "Select(MetaData(EventDataset('ds'), {'metadata_type': 'define_enum', 'name': 'b'}), lambda e: e.PRIM('A').Count())",
        "Select(MetaData(MetaData(EventDataset('ds'), {'metadata_type': 'inject_code', 'name': 'b', 'body_includes': ['x.h']}), {'metadata_type': 'inject_code', 'name': 'b', 'body_includes': ['y.h']}), lambda e: e.PRIM('A').Count())",
        "ResultTTree(Select(EventDataset('ds'), lambda e: e.PRIM('A').Count()), ('a', 'b'), 't', 'f.root')",
        "ResultTTree(Select(EventDataset('ds'), lambda e: (e.PRIM('A').Count(), e.SEC('B').Count())), 'a', 't', 'f.root')",
        "Select(EventDataset('ds'))",
        # a dictionary / tuple stream with an explicit label list of the wrong length
        "ResultTTree(Select(SelectMany(EventDataset('ds'), lambda e: e.PRIM('A')), lambda j: {'pt': j.pt(), 'eta': j.eta()}), ['a'], 't', 'f.root')",
        "ResultTTree(Select(SelectMany(EventDataset('ds'), lambda e: e.PRIM('A')), lambda j: {'pt': j.pt(), 'eta': j.eta()}), ['a', 'b', 'c'], 't', 'f.root')",
        "ResultTTree(Select(EventDataset('ds'), lambda e: {'pt': e.PRIM('A').Select(lambda j: j.pt()), 'n': e.PRIM('A').Count()}), 'a', 't', 'f.root')",
        "ResultTTree(Select(SelectMany(EventDataset('ds'), lambda e: e.PRIM('A')), lambda j: j.pt()), ['a', 'b'], 't', 'f.root')",
        # same-name blocks with different content, through the whole executor (inject_code and job scripts)
        "Select(MetaData(MetaData(EventDataset('ds'), {'metadata_type': 'inject_code', 'name': 'b', 'ctor_lines': ['x = 1;']}), {'metadata_type': 'inject_code', 'name': 'b', 'ctor_lines': ['x = 2;']}), lambda e: e.PRIM('A').Count())",
        "Select(MetaData(MetaData(EventDataset('ds'), {'metadata_type': 'add_job_script', 'name': 'b', 'script': ['x = 1'], 'depends_on': []}), {'metadata_type': 'add_job_script', 'name': 'b', 'script': ['x = 2'], 'depends_on': []}), lambda e: e.PRIM('A').Count())",
        "Select(MetaData(EventDataset('ds'), {'metadata_type': 'add_job_script', 'name': 'b', 'script': ['x = 1'], 'depends_on': ['never_sent']}), lambda e: e.PRIM('A').Count())",
        "Select(MetaData(MetaData(EventDataset('ds'), {'metadata_type': 'add_job_script', 'name': 'a', 'script': [], 'depends_on': ['b']}), {'metadata_type': 'add_job_script', 'name': 'b', 'script': [], 'depends_on': ['a']}), lambda e: e.PRIM('A').Count())",
        "Select(MetaData(EventDataset('ds'), {'metadata_type': 'add_job_script', 'name': 'a', 'script': [], 'depends_on': ['never_sent']}), lambda e: e.PRIM('A').Count())",
    ]
    if backend == "atlas":
        tops.append("Select(EventDataset('ds'), lambda e: e.EventInfo('EI'))")
    for q in tops:
        if "add_job_script" in q and backend != "atlas":
            continue      # job scripts are an ATLAS facility: the CMS executors never order them
        add(q, ("must_raise", "top"))
    return out


# ------------------------------------------------------------------ C11: injected C++ functions at call sites
def c11_programs(backend):
    import z3
    from .model import CollV, Num, ObjV, real
    from .ref import RSeq
    v = VOCAB[backend]
    P, S, E = v["prim"], v["sec"], v["prim_cls"]
    out = []

    def prog(q, fns, tags=()):
        q = q.replace("PRIM", P).replace("SEC", S)
        dm = datamodel_for(q, backend)
        for f in fns:
            dm.cpp_functions.append(f)
        out.append(Program(with_metadata(q, dm), backend, dm, src=q, tags=tuple(tags)))
    twice = cpp_function_md("twice", ["x"], ["double result = x * 2;"])
    twice["ref_lambda"] = lambda ref, a, g: Num("double", real(a[0]) * 2)
    twice["py_lambda"] = lambda cref, a: ("double", float(a[0][1]) * 2)
    addmul = cpp_function_md("addmul", ["x", "y"], ["auto t = x + y;", "double result = t * 3;"])
    addmul["ref_lambda"] = lambda ref, a, g: Num("double", (real(a[0]) + real(a[1])) * 3)
    addmul["py_lambda"] = lambda cref, a: ("double", (float(a[0][1]) + float(a[1][1])) * 3)
    # hygiene hazards: formals inside longer words, a formal named like a local of the code
    hyg = cpp_function_md("hyg", ["pt", "eta"], ["auto pt_gev = pt / 1000.0;", "auto theta = eta * 2;", "double result = pt_gev + theta - pt;"])
    hyg["ref_lambda"] = lambda ref, a, g: Num("double", real(a[0]) / 1000 + real(a[1]) * 2 - real(a[0]))
    hyg["py_lambda"] = lambda cref, a: ("double", float(a[0][1]) / 1000.0 + float(a[1][1]) * 2 - float(a[0][1]))
    other_result = cpp_function_md("resn", ["x"], ["double my_res = x + 1;"], result="my_res")
    other_result["ref_lambda"] = lambda ref, a, g: Num("double", real(a[0]) + 1)
    other_result["py_lambda"] = lambda cref, a: ("double", float(a[0][1]) + 1)
    intfn = cpp_function_md("inti", ["x"], ["int result = x + 1;"], ret="int")
    intfn["ref_lambda"] = lambda ref, a, g: Num("int", __import__("vlib.tv.model", fromlist=["toint"]).toint(a[0]) + 1)
    intfn["py_lambda"] = lambda cref, a: ("int", int(a[0][1]) + 1)
    # method style: the receiver replaces the method object
    meth = cpp_function_md("scaled", ["s"], ["double result = obj_x->pt() * s;" if backend == "atlas" else "double result = obj_x.pt() * s;"],
                           method_object="obj_x", instance_object=E)

    def meth_ref(ref, a, g):
        recv = a[0]
        ptv = ref.ev.call_method(ref.ctx, recv.cls, ref.dm.method(recv.cls, "pt"), recv.oid, [])
        return Num("double", real(ptv) * real(a[1]))
    meth["ref_lambda"] = meth_ref
    meth["py_lambda"] = lambda cref, a: ("double", cref.call_method(a[0].cls, cref.dm.method(a[0].cls, "pt"), a[0].oid, [])[1] * float(a[1][1]))
    # collection-returning function
    pair = cpp_function_md("pair", ["x"], ["std::vector<double> result;", "result.push_back(x);", "result.push_back(x * 2);"], collection=True)
    pair["ref_lambda"] = lambda ref, a, g: RSeq([(z3.BoolVal(True), Num("double", real(a[0]))), (z3.BoolVal(True), Num("double", real(a[0]) * 2))])
    pair["py_lambda"] = lambda cref, a: [("double", float(a[0][1])), ("double", float(a[0][1]) * 2)]
    qs = [
        ("Select(EventDataset('ds'), lambda e: e.PRIM('A').Select(lambda j: twice(j.pt())))", [twice]),
        ("Select(EventDataset('ds'), lambda e: e.PRIM('A').Select(lambda j: twice(j.pt()) + twice(j.eta())))", [twice]),
        ("Select(EventDataset('ds'), lambda e: e.PRIM('A').Select(lambda j: twice(twice(j.pt()))))", [twice]),
        ("Select(EventDataset('ds'), lambda e: e.PRIM('A').Select(lambda j: addmul(j.eta(), j.pt())))", [addmul]),
        ("Select(EventDataset('ds'), lambda e: e.PRIM('A').Select(lambda j: addmul(twice(j.eta()), addmul(j.pt(), 1))))", [twice, addmul]),
        ("Select(EventDataset('ds'), lambda e: e.PRIM('A').Where(lambda j: twice(j.pt()) > 3).Select(lambda j: addmul(j.eta(), j.pt())))", [twice, addmul]),
        ("Select(EventDataset('ds'), lambda e: e.PRIM('A').Select(lambda j: twice(j.pt())).Sum())", [twice]),
        ("Select(EventDataset('ds'), lambda e: e.PRIM('A').Select(lambda j: e.SEC('B').Where(lambda t: twice(t.pt()) > j.pt()).Count()))", [twice]),
        ("Select(EventDataset('ds'), lambda e: e.PRIM('A').Select(lambda j: twice(j.pt()) if twice(j.eta()) > 1 else addmul(j.pt(), j.eta())))", [twice, addmul]),
        ("Select(EventDataset('ds'), lambda e: e.PRIM('A').Select(lambda j: j.pt() > 1 and twice(j.eta()) > 1))", [twice]),
        ("Select(SelectMany(EventDataset('ds'), lambda e: e.PRIM('A')), lambda j: (twice(j.pt()), j.eta()))", [twice]),
        ("Select(EventDataset('ds'), lambda e: twice(e.PRIM('A').Count()))", [twice]),
        ("Select(EventDataset('ds'), lambda e: e.PRIM('A').Select(lambda j: hyg(j.eta(), j.pt())))", [hyg]),         # actuals named like the other formal
        ("Select(EventDataset('ds'), lambda e: e.PRIM('A').Select(lambda j: hyg(j.pt(), j.eta())))", [hyg]),
        ("Select(EventDataset('ds'), lambda e: e.PRIM('A').Select(lambda j: hyg(j.pt() + j.eta(), j.eta() - j.pt())))", [hyg]),
        ("Select(EventDataset('ds'), lambda e: e.PRIM('A').Select(lambda j: resn(j.pt())))", [other_result]),
        ("Select(EventDataset('ds'), lambda e: e.PRIM('A').Select(lambda j: inti(j.nTrk())))", [intfn]),
        ("Select(EventDataset('ds'), lambda e: e.PRIM('A').Select(lambda j: j.scaled(2)))", [meth]),
        ("Select(EventDataset('ds'), lambda e: e.PRIM('A').Select(lambda j: j.scaled(j.eta()) + twice(1)))", [meth, twice]),
        ("Select(EventDataset('ds'), lambda e: e.PRIM('A').Select(lambda j: j.scaled(twice(j.s())) + j.scaled(j.pt())))", [meth, twice]),   # a method named like the formal in the actual
        ("Select(EventDataset('ds'), lambda e: e.PRIM('A').Select(lambda j: pair(j.pt())))", [pair]),
        ("Select(EventDataset('ds'), lambda e: e.PRIM('A').Select(lambda j: pair(j.pt()).Sum()))", [pair]),
        ("Select(EventDataset('ds'), lambda e: e.PRIM('A').SelectMany(lambda j: pair(j.pt())).Count())", [pair]),
        ("Select(EventDataset('ds'), lambda e: e.PRIM('A').Select(lambda j: DeltaR(j.eta(), j.phi(), 0.5, 1.0)))", []),
        ("Select(EventDataset('ds'), lambda e: e.PRIM('A').Select(lambda j: DeltaR(j.eta(), -3.0, 0.5, 3.0)))", []),          # across the +-pi seam, both orders
        ("Select(EventDataset('ds'), lambda e: e.PRIM('A').Select(lambda j: DeltaR(j.eta(), 3.0, 0.5, -3.0)))", []),
        ("Select(EventDataset('ds'), lambda e: e.PRIM('A').Select(lambda j: e.SEC('B').Where(lambda t: DeltaR(j.eta(), j.phi(), t.eta(), t.phi()) < 1.5).Count()))", []),
        ("Select(EventDataset('ds'), lambda e: e.PRIM('A').Select(lambda j: DeltaR(j.phi(), j.eta(), j.eta(), j.phi())))", []),  # actual texts equal other formals' roles
    ]
    # arguments whose translation leaves the generator inside a deeper scope (First, nested sequences): the result variable must
    # still be visible where the call's value is used
    qs += [
        ("Select(Where(EventDataset('ds'), lambda e: e.PRIM('A').Count() > 0), lambda e: twice(e.PRIM('A').First().pt()))", [twice]),
        ("Select(Where(EventDataset('ds'), lambda e: e.PRIM('A').Count() > 0 and e.SEC('B').Count() > 0), lambda e: addmul(e.PRIM('A').First().pt(), e.SEC('B').First().pt()))", [addmul]),
        ("Select(Where(EventDataset('ds'), lambda e: e.PRIM('A').Count() > 0), lambda e: addmul(e.PRIM('A').First().pt(), e.PRIM('A').Count()) + 1)", [addmul]),
        ("Select(Where(EventDataset('ds'), lambda e: e.PRIM('A').Count() > 0 and e.SEC('B').Count() > 0), lambda e: DeltaR(e.PRIM('A').First().eta(), e.PRIM('A').First().phi(), e.SEC('B').First().eta(), e.SEC('B').First().phi()))", []),
        ("Select(EventDataset('ds'), lambda e: e.PRIM('A').Select(lambda j: twice(e.SEC('B').Where(lambda t: t.pt() > j.pt()).Count())))", [twice]),
        ("Select(EventDataset('ds'), lambda e: e.PRIM('A').Where(lambda j: j.vals().Count() > 0).Select(lambda j: twice(j.vals().First()) + j.pt()))", [twice]),
        ("Select(EventDataset('ds'), lambda e: (twice(e.PRIM('A').Count()), e.PRIM('A').Select(lambda j: twice(j.pt()))))", [twice]),
    ]
    if backend == "atlas":
        # the documented built-in method on receivers of every shape
        qs += [
            ("Select(Where(EventDataset('ds'), lambda e: e.PRIM('A').Count() > 0), lambda e: e.PRIM('A').First().getAttributeFloat('emf'))", []),
            ("Select(EventDataset('ds'), lambda e: e.PRIM('A').Where(lambda j: j.pt() > 1.5).Select(lambda j: j.getAttributeFloat('emf')))", []),
            ("Select(EventDataset('ds'), lambda e: e.PRIM('A').Select(lambda j: j.getAttributeFloat('a') - j.getAttributeFloat('b')))", []),
            ("Select(Select(Where(EventDataset('ds'), lambda e: e.PRIM('A').Count() > 0), lambda e: e.PRIM('A').First()), lambda j: j.getAttributeFloat('emf') + j.pt())", []),
            # actual arguments that are strings with C++ comment / statement syntax inside (the supplied code is pasted with them)
            ("Select(EventDataset('ds'), lambda e: e.PRIM('A').Select(lambda j: j.getAttributeFloat('root://eos//calib.root')))", []),
            ("Select(EventDataset('ds'), lambda e: e.PRIM('A').Select(lambda j: j.getAttributeFloat('Width // raw') + j.getAttributeFloat('a; b')))", []),
            ("Select(EventDataset('ds'), lambda e: e.PRIM('A').Select(lambda j: j.getAttributeFloat('x /* y */ z')))", []),
            # an actual argument whose TEXT spells a formal parameter / the method object of the supplied code: it is an argument,
            # not a second occurrence of the formal (all substitutions are simultaneous)
            ("Select(EventDataset('ds'), lambda e: e.PRIM('A').Select(lambda j: j.getAttributeFloat('obj_j')))", []),
            ("Select(EventDataset('ds'), lambda e: e.PRIM('A').Select(lambda j: j.getAttributeFloat('moment_name') + j.getAttributeFloat('obj_j')))", []),
            ("Select(EventDataset('ds'), lambda e: e.PRIM('A').Select(lambda j: j.getAttributeFloat('a obj_j b') - j.getAttributeFloat('result')))", []),
            ("Select(EventDataset('ds'), lambda e: e.PRIM('A').Where(lambda j: j.getAttributeFloat('obj_j') > 0.5).Select(lambda k: k.getAttributeFloat('obj_j')))", []),
        ]
    for q, fns in qs:
        prog(q, fns, tags=("cppfn",))
    bad = [
        ("Select(EventDataset('ds'), lambda e: e.PRIM('A').Select(lambda j: twice(j.pt(), 1)))", [twice]),
        ("Select(EventDataset('ds'), lambda e: e.PRIM('A').Select(lambda j: twice()))", [twice]),
        ("Select(EventDataset('ds'), lambda e: e.PRIM('A').Select(lambda j: j.twice(1)))", [twice]),
        ("Select(EventDataset('ds'), lambda e: e.PRIM('A').Select(lambda j: scaled(j, 1)))", [meth]),
        ("Select(EventDataset('ds'), lambda e: e.PRIM('A').Select(lambda j: j.scaled()))", [meth]),
        ("Select(EventDataset('ds'), lambda e: e.PRIM('A').Select(lambda j: DeltaR(j.eta(), j.phi(), 1.0)))", []),
    ]
    if backend != "atlas":
        bad += [
            ("Select(EventDataset('ds'), lambda e: e.PRIM('A').Select(lambda m: m.isNonnull(m.globalTrack())))", []),      # method style: the receiver would be dropped
            ("Select(EventDataset('ds'), lambda e: e.PRIM('A').Select(lambda m: isNonnull(m.globalTrack(), m)))", []),
        ]
    for q, fns in bad:
        prog(q, fns, tags=("must_raise", "cppfn"))
    return out
