"""Meaning of C math library functions for engine A.

Interpreted where z3 can decide it (rounding/remainder/min/max/abs family), otherwise a
distinct uninterpreted function *named after the C function*.  Used by both sides:
the symbolic executor applies it to the C++ name it finds in the emitted code, the
reference applies it to the *documented* name (README list) — so a table row that maps
to another function is `sat`.
"""
import z3

from .model import Num, real

# documented aliases (README: "ln", "abs" on reals)
ALIASES = {"ln": "log", "abs": "fabs", "nearbyint": "rint", "scalbn": "ldexp", "scalbln": "ldexp"}

# README list, frozen (cross-checked against the live README by the C12 check)
DOCUMENTED = [
    "sin", "cos", "tan", "acos", "asin", "atan", "atan2", "sinh", "cosh", "tanh", "asinh",
    "acosh", "atanh", "exp", "ldexp", "log", "ln", "log10", "exp2", "expm1", "ilogb", "log1p",
    "log2", "scalbn", "scalbln", "pow", "sqrt", "cbrt", "hypot", "erf", "erfc", "tgamma",
    "lgamma", "ceil", "floor", "fmod", "trunc", "round", "rint", "nearbyint", "remainder",
    "remquo", "copysign", "nan", "nextafter", "nexttoward", "fdim", "fmax", "fmin", "fabs",
    "abs", "fma",
]
ARITY = {"atan2": 2, "ldexp": 2, "scalbn": 2, "scalbln": 2, "pow": 2, "hypot": 2, "fmod": 2,
         "remainder": 2, "remquo": 3, "copysign": 2, "nextafter": 2, "nexttoward": 2, "fdim": 2,
         "fmax": 2, "fmin": 2, "fma": 3, "nan": 1}
# C++ side only: the <cmath> functions whose result is an integer type (arithmetic on the result follows integer rules)
CPP_INT_RESULT = {"ilogb", "lround", "llround", "lrint", "llrint"}


def cpp_call(event, cname, args):
    """The C++ meaning of std::<cname>(args) as the compiler sees it: arity and parameter kinds are checked against the
    <cmath> signature (a call no overload accepts is ill-typed), integer-returning functions yield an int."""
    n = canonical(cname)
    bare = cname[5:] if cname.startswith("std::") else cname
    if bare in DOCUMENTED or n in DOCUMENTED:
        want = ARITY.get(bare, ARITY.get(n, 1))
        if bare in NON_NUMERIC_SIGNATURE:
            raise IllTypedCall(f"std::{bare} takes {'an int* third argument' if bare == 'remquo' else 'a const char*'}: no overload accepts numeric arguments {len(args)}")
        if len(args) != want:
            raise IllTypedCall(f"std::{bare} called with {len(args)} argument(s); <cmath> declares {want}")
    r = apply(event, cname, args)
    if n in CPP_INT_RESULT:
        return Num("int", z3.ToInt(real(r)))
    return r


class IllTypedCall(Exception):
    pass


# functions that cannot be called with plain numeric arguments from a query (pointer/string
# parameters in C): they are in the documented list but no numeric call exists to compare.
NON_NUMERIC_SIGNATURE = {"remquo", "nan"}


def canonical(name):
    if name.startswith("std::"):
        name = name[5:]
    if name.startswith("::"):
        name = name[2:]
    return ALIASES.get(name, name)


def _floor(x):
    return z3.ToReal(z3.ToInt(x))


def _ceil(x):
    return -_floor(-x)


def _trunc(x):
    return z3.If(x >= 0, _floor(x), _ceil(x))


def _round_away(x):
    return z3.If(x >= 0, _floor(x + 0.5), _ceil(x - 0.5))


def _rint_even(x):
    f = _floor(x)
    d = x - f
    fi = z3.ToInt(x)
    return z3.If(d < 0.5, f, z3.If(d > 0.5, f + 1, z3.If(fi % 2 == 0, f, f + 1)))


def _abs(x):
    return z3.If(x >= 0, x, -x)


def apply(event, cname, args):
    """Value of the C function `cname` on numeric args (list of Num). Result is double."""
    n = canonical(cname)
    xs = [real(a) for a in args]
    if n == "ceil" and len(xs) == 1:
        return Num("double", _ceil(xs[0]))
    if n == "floor" and len(xs) == 1:
        return Num("double", _floor(xs[0]))
    if n == "trunc" and len(xs) == 1:
        return Num("double", _trunc(xs[0]))
    if n == "round" and len(xs) == 1:
        return Num("double", _round_away(xs[0]))
    if n == "rint" and len(xs) == 1:
        return Num("double", _rint_even(xs[0]))
    if n == "fabs" and len(xs) == 1:
        if args[0].kind in ("int", "bool"):
            from .model import toint
            x = toint(args[0])
            return Num("double", z3.ToReal(z3.If(x >= 0, x, -x)))
        return Num("double", _abs(xs[0]))
    if n == "fmax" and len(xs) == 2:
        return Num("double", z3.If(xs[0] >= xs[1], xs[0], xs[1]))
    if n == "fmin" and len(xs) == 2:
        return Num("double", z3.If(xs[0] <= xs[1], xs[0], xs[1]))
    if n == "fdim" and len(xs) == 2:
        return Num("double", z3.If(xs[0] > xs[1], xs[0] - xs[1], z3.RealVal(0)))
    if n == "fma" and len(xs) == 3:
        return Num("double", xs[0] * xs[1] + xs[2])
    if n == "copysign" and len(xs) == 2:
        # sign of zero is outside the real abstraction: y == 0 treated as +0
        return Num("double", z3.If(xs[1] >= 0, _abs(xs[0]), -_abs(xs[0])))
    if n == "fmod" and len(xs) == 2:
        q = xs[0] / xs[1]
        return Num("double", z3.If(xs[1] == 0, event.free_function("fmod0", args).t, xs[0] - xs[1] * _trunc(q)))
    if n == "remainder" and len(xs) == 2:
        q = xs[0] / xs[1]
        return Num("double", z3.If(xs[1] == 0, event.free_function("remainder0", args).t, xs[0] - xs[1] * _rint_even(q)))
    if n == "pow" and len(xs) == 2:
        e = z3.simplify(xs[1])
        if z3.is_rational_value(e) or z3.is_int_value(e):
            try:
                k = e.as_fraction() if z3.is_rational_value(e) else None
                k = int(k) if k is not None and k.denominator == 1 else (e.as_long() if z3.is_int_value(e) else None)
            except Exception:  # noqa: BLE001
                k = None
            if k is not None and 0 <= k <= 4:
                r = z3.RealVal(1)
                for _ in range(k):
                    r = r * xs[0]
                return Num("double", r)      # a literal small integer power is the exact product
    return event.free_function(n, args)


INTERPRETED = {"ceil", "floor", "trunc", "round", "rint", "fabs", "fmax", "fmin", "fdim", "fma",
               "copysign", "fmod", "remainder"}
