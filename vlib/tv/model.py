"""Verifier-side data model and symbolic event for engine A.

Nothing in here reads func_adl_xAOD's own tables: the built-in collection table below is
a frozen oracle written from the README / the experiments' data formats, and everything
else comes from the declarations the *program under test* carries (DataModel), from which
the query's MetaData calls, the symbolic executor's type environment and the clang replay
stubs are all generated.
"""
import re
from dataclasses import dataclass, field
from typing import Dict, List, Optional, Tuple

import z3

# ------------------------------------------------------------------ types


@dataclass(frozen=True)
class TNum:
    kind: str  # int | float | double | bool

    def __str__(self):
        return self.kind


@dataclass(frozen=True)
class TObj:
    cls: str
    p: int = 0          # pointer depth
    ref: bool = False   # edm::Ref-like smart pointer (p == 1): has operator-> and isNonnull()

    def __str__(self):
        return self.cls + "*" * self.p


@dataclass(frozen=True)
class TColl:
    name: str           # C++ container type name
    elem: object        # element type
    p: int = 0

    def __str__(self):
        return self.name + "*" * self.p


@dataclass(frozen=True)
class THandle:
    inner: TColl        # edm::Handle<inner>

    def __str__(self):
        return f"edm::Handle<{self.inner.name}>"


@dataclass(frozen=True)
class TStr:
    def __str__(self):
        return "string"


@dataclass(frozen=True)
class TToken:
    of: str

    def __str__(self):
        return f"edm::EDGetTokenT<{self.of}>"


@dataclass(frozen=True)
class TEnum:
    name: str


@dataclass(frozen=True)
class TVoid:
    pass


NUM_KINDS = ("bool", "int", "float", "double")
KIND_RANK = {"bool": 0, "int": 1, "float": 2, "double": 3}


# ------------------------------------------------------------------ declarations
@dataclass
class MethodSpec:
    name: str
    ret: object                      # TNum | TObj | TColl
    nargs: int = 0
    nullable: bool = False           # pointer / Ref returns may be null
    deref_count: int = 0             # metadata deref_count
    tree_type: Optional[str] = None  # metadata tree_type
    declared: bool = True            # False => falls back to the 'double' default


@dataclass
class ClassSpec:
    name: str
    methods: Dict[str, MethodSpec] = field(default_factory=dict)
    header: Optional[str] = None     # header that declares it (for the include check)


@dataclass
class CollSpec:
    """An event-level collection as the *query* names it (e.Jets("bank"))."""
    name: str
    container: str                   # C++ container type
    elem_cls: Optional[str]          # None for singletons
    elem_p: int                      # pointer depth of the elements
    singleton: bool
    headers: Tuple[str, ...]
    libs: Tuple[str, ...]
    declared_md: Optional[dict] = None   # metadata dict if declared through MetaData


# Frozen oracle of the built-in collections (README "The Event" + data formats).
BUILTIN = {
    "atlas": {
        "Jets": CollSpec("Jets", "xAOD::JetContainer", "xAOD::Jet", 1, False, ("xAODJet/JetContainer.h",), ("xAODJet",)),
        "Tracks": CollSpec("Tracks", "xAOD::TrackParticleContainer", "xAOD::TrackParticle", 1, False, ("xAODTracking/TrackParticleContainer.h",), ("xAODTracking",)),
        "EventInfo": CollSpec("EventInfo", "xAOD::EventInfo", None, 0, True, ("xAODEventInfo/EventInfo.h",), ("xAODEventInfo",)),
        "TruthParticles": CollSpec("TruthParticles", "xAOD::TruthParticleContainer", "xAOD::TruthParticle", 1, False, ("xAODTruth/TruthParticleContainer.h",), ("xAODTruth",)),
        "Electrons": CollSpec("Electrons", "xAOD::ElectronContainer", "xAOD::Electron", 1, False, ("xAODEgamma/ElectronContainer.h",), ("xAODEgamma",)),
        "Muons": CollSpec("Muons", "xAOD::MuonContainer", "xAOD::Muon", 1, False, ("xAODMuon/MuonContainer.h",), ("xAODMuon",)),
        "MissingET": CollSpec("MissingET", "xAOD::MissingETContainer", "xAOD::MissingET", 1, False, ("xAODMissingET/MissingETContainer.h",), ("xAODMissingET",)),
    },
    "cms_aod": {
        "Tracks": CollSpec("Tracks", "reco::TrackCollection", "reco::Track", 0, False, ("DataFormats/TrackReco/interface/Track.h",), ()),
        "TrackMuons": CollSpec("TrackMuons", "reco::TrackCollection", "reco::Track", 0, False, ("DataFormats/TrackReco/interface/Track.h",), ()),
        "Muons": CollSpec("Muons", "reco::MuonCollection", "reco::Muon", 0, False, ("DataFormats/MuonReco/interface/Muon.h",), ()),
        "Vertex": CollSpec("Vertex", "reco::VertexCollection", "reco::Vertex", 0, False, ("DataFormats/VertexReco/interface/Vertex.h",), ()),
        "GsfElectrons": CollSpec("GsfElectrons", "reco::GsfElectronCollection", "reco::GsfElectron", 0, False, ("DataFormats/EgammaCandidates/interface/GsfElectron.h",), ()),
    },
    "cms_miniaod": {
        "Muons": CollSpec("Muons", "pat::MuonCollection", "pat::Muon", 0, False, ("DataFormats/PatCandidates/interface/Muon.h",), ()),
        "Vertex": CollSpec("Vertex", "reco::VertexCollection", "reco::Vertex", 0, False, ("DataFormats/VertexReco/interface/Vertex.h",), ()),
        "Electrons": CollSpec("Electrons", "pat::ElectronCollection", "pat::Electron", 0, False, ("DataFormats/PatCandidates/interface/Electron.h",), ()),
    },
}

# Built-in method typings the backends document (frozen copy; README/ARCHITECTURE + data formats).
BUILTIN_METHODS = {
    "atlas": [
        ("xAOD::TruthParticle", MethodSpec("prodVtx", TObj("xAODTruth::TruthVertex", 1), nullable=True)),
        ("xAOD::TruthParticle", MethodSpec("decayVtx", TObj("xAODTruth::TruthVertex", 1), nullable=True)),
        ("xAOD::TruthParticle", MethodSpec("parent", TObj("xAOD::TruthParticle", 1), nullable=True)),
        ("xAOD::TruthParticle", MethodSpec("child", TObj("xAOD::TruthParticle", 1), nullable=True)),
    ],
    "cms_aod": [
        ("reco::Track", MethodSpec("hitPattern", TObj("reco::HitPattern", 0))),
        ("reco::Muon", MethodSpec("globalTrack", TObj("reco::Track", 1, True), nullable=True)),
        ("reco::Muon", MethodSpec("hitPattern", TObj("reco::HitPattern", 0))),
        ("reco::Muon", MethodSpec("isPFIsolationValid", TNum("bool"))),
        ("reco::Muon", MethodSpec("isPFMuon", TNum("bool"))),
        ("reco::Muon", MethodSpec("pfIsolationR04", TObj("reco::MuonPFIsolation", 0))),
        ("reco::GsfElectron", MethodSpec("gsfTrack", TObj("reco::GsfTrack", 1, True), nullable=True)),
        ("reco::GsfElectron", MethodSpec("isEB", TNum("bool"))),
        ("reco::GsfElectron", MethodSpec("isEE", TNum("bool"))),
        ("reco::GsfElectron", MethodSpec("passingPflowPreselection", TNum("bool"))),
        ("reco::GsfElectron", MethodSpec("superCluster", TObj("reco::SuperClusterRef", 1, True), nullable=True)),
        ("reco::GsfElectron", MethodSpec("pfIsolationVariables", TObj("reco::GsfElectron::PflowIsolationVariables", 0))),
        ("reco::GsfTrack", MethodSpec("trackerExpectedHitsInner", TObj("reco::HitPattern", 0))),
    ],
    "cms_miniaod": [
        ("reco::TrackRef", MethodSpec("hitPattern", TObj("reco::HitPattern", 0))),
        ("pat::Muon", MethodSpec("globalTrack", TObj("reco::TrackRef", 1, True), nullable=True)),
        ("pat::Muon", MethodSpec("isPFIsolationValid", TNum("bool"))),
        ("pat::Muon", MethodSpec("isPFMuon", TNum("bool"))),
        ("pat::Muon", MethodSpec("pfIsolationR04", TObj("reco::MuonPFIsolation", 0))),
        ("pat::Electron", MethodSpec("gsfTrack", TObj("reco::GsfTrackRef", 1, True), nullable=True)),
        ("pat::Electron", MethodSpec("isEB", TNum("bool"))),
        ("pat::Electron", MethodSpec("isEE", TNum("bool"))),
        ("pat::Electron", MethodSpec("passingPflowPreselection", TNum("bool"))),
        ("pat::Electron", MethodSpec("superCluster", TObj("reco::SuperClusterRef", 1, True), nullable=True)),
        ("pat::Electron", MethodSpec("pfIsolationVariables", TObj("reco::GsfElectron::PflowIsolationVariables", 0))),
        ("reco::GsfTrack", MethodSpec("trackerExpectedHitsInner", TObj("reco::HitPattern", 0))),
    ],
}


def type_to_cpp(t):
    if isinstance(t, TNum):
        return t.kind
    if isinstance(t, TObj):
        return t.cls + "*" * t.p
    if isinstance(t, TColl):
        return t.name + "*" * t.p
    raise ValueError(t)


class DataModel:
    """Classes/methods/collections for one program under test."""

    def __init__(self, backend):
        self.backend = backend
        self.classes: Dict[str, ClassSpec] = {}
        self.colls: Dict[str, CollSpec] = dict(BUILTIN[backend])
        self.enums: Dict[str, Tuple[str, List[str]]] = {}   # 'ns.Name' -> (ns, values)
        self.cpp_functions: List[dict] = []                 # add_cpp_function metadata dicts
        self.extra_md: List[dict] = []
        for cls, ms in BUILTIN_METHODS[backend]:
            self.cls(cls).methods[ms.name] = MethodSpec(ms.name, ms.ret, ms.nargs, ms.nullable, declared=True)
        self._builtin_decl = {(c, m.name) for c, m in BUILTIN_METHODS[backend]}

    def cls(self, name) -> ClassSpec:
        if name not in self.classes:
            self.classes[name] = ClassSpec(name)
        return self.classes[name]

    def declare_method(self, cls, ms: MethodSpec):
        self.cls(cls).methods[ms.name] = ms
        self._builtin_decl.discard((cls, ms.name))      # a declaration by the query replaces the backend's default
        return self

    def method(self, cls, name, nargs=0) -> MethodSpec:
        c = self.cls(cls)
        if name in c.methods:
            return c.methods[name]
        return MethodSpec(name, TNum("double"), nargs, declared=False)

    def smart_depth(self, cls) -> int:
        "how many times an object of this class can be dereferenced itself (max declared deref_count)"
        c = self.classes.get(cls)
        if c is None:
            return 0
        return max([m.deref_count for m in c.methods.values()] + [0])

    def declare_collection(self, spec: CollSpec):
        self.colls[spec.name] = spec
        return self

    # ---- metadata the query must carry for this model
    def metadata_dicts(self):
        out = []
        for cname, c in self.classes.items():
            for m in c.methods.values():
                if not m.declared or (cname, m.name) in self._builtin_decl:
                    continue
                d = {"metadata_type": "add_method_type_info", "type_string": cname, "method_name": m.name}
                if isinstance(m.ret, TColl):
                    d["return_type_element"] = type_to_cpp(m.ret.elem)
                    if not m.ret.name.startswith("std::vector<") or m.ret.p:
                        d["return_type_collection"] = type_to_cpp(m.ret)
                    elif m.ret.name != f"std::vector<{type_to_cpp(m.ret.elem)}>":
                        d["return_type_collection"] = type_to_cpp(m.ret)
                else:
                    d["return_type"] = type_to_cpp(m.ret)
                    if m.tree_type:
                        d["tree_type"] = m.tree_type
                if m.deref_count:
                    d["deref_count"] = m.deref_count
                out.append(d)
        for spec in self.colls.values():
            if spec.declared_md is not None:
                out.append(spec.declared_md)
        for full, (ns, values) in self.enums.items():
            out.append({"metadata_type": "define_enum", "namespace": ns, "name": full.split(".")[-1], "values": values})
        out += self.cpp_functions
        out += self.extra_md
        return out

    # ---- C++ type strings -> types
    def container_types(self):
        d = {}
        for spec in self.colls.values():
            if spec.singleton:
                continue
            d[spec.container] = TColl(spec.container, TObj(spec.elem_cls, spec.elem_p), 0)
        return d

    def parse_cpp_type(self, s):
        s = s.strip()
        s = re.sub(r"^const\s+", "", s)
        s = re.sub(r"\s+", " ", s)
        s = re.sub(r"\s*([<>,*&])\s*", r"\1", s)
        p = 0
        while s.endswith("*"):
            s = s[:-1]
            p += 1
        s = s.rstrip("&")
        if s in ("double", "float", "int", "bool"):
            if p:
                return TObj(s, p)
            return TNum(s)
        if s in ("unsigned", "unsigned int", "long", "size_t", "short", "unsigned long", "long long", "char"):
            return TNum("int")
        if s == "std::string":
            return TStr()
        if s == "string":
            # the packages have no using-directive for namespace std: a bare `string` is a type only if the query's own
            # declarations use that spelling (then the model header of the replay declares it, as the user's headers would)
            if any(type_to_cpp(m_.ret) == "string" for c in self.classes.values() for m_ in c.methods.values()) or "string" in self.classes:
                return TStr()
            raise IllTyped("type name 'string' is not declared (the package has no using-directive for namespace std)")
        m = re.match(r"^(?:std::)?vector<(.*)>$", s)
        if m:
            return TColl(s, self.parse_cpp_type(m.group(1)), p)
        m = re.match(r"^(?:edm::)?Handle<(.*)>$", s)
        if m:
            inner = self.parse_cpp_type(m.group(1))
            if not isinstance(inner, TColl):
                inner = TColl(m.group(1), TObj("?", 0), 0)
            return THandle(inner)
        m = re.match(r"^edm::EDGetTokenT<(.*)>$", s)
        if m:
            return TToken(m.group(1))
        ct = self.container_types()
        if s in ct:
            c = ct[s]
            return TColl(c.name, c.elem, p)
        for c in self.classes.values():
            for m_ in c.methods.values():
                if isinstance(m_.ret, TColl) and m_.ret.name == s:
                    return TColl(s, m_.ret.elem, p)
        return TObj(s, p)


PI_Q = z3.RealVal(str(__import__("fractions").Fraction(__import__("math").pi)))      # the double M_PI, exactly


class IllTyped(Exception):
    "The emitted code is not well-formed C++ against the declared data model."


# ------------------------------------------------------------------ symbolic values
class Num:
    __slots__ = ("kind", "t", "tk")

    def __init__(self, kind, t, tk=None):
        self.kind = kind
        self.t = t
        self.tk = tk      # declared tree_type of the method that produced the value (applies only while it is used as a leaf column)

    def __repr__(self):
        return f"Num({self.kind},{self.t})"


class ObjV:
    "Object (or pointer to object): class, pointer depth, object id, null predicate."
    __slots__ = ("cls", "p", "oid", "null", "ref", "sd")

    def __init__(self, cls, p, oid, null=None, ref=False, sd=0):
        self.cls = cls
        self.p = p
        self.oid = oid
        self.null = null if null is not None else z3.BoolVal(False)
        self.ref = ref
        self.sd = sd      # "smart" dereferences applied so far (metadata deref_count semantics)

    def __repr__(self):
        return f"Obj({self.cls}{'*'*self.p},{self.oid})"


class CollV:
    """A container value: guarded element list + pointer depth.
    valid: Bool (False -> null container pointer / invalid handle)."""
    __slots__ = ("tname", "elem_t", "p", "slots", "valid", "handle", "key")

    def __init__(self, tname, elem_t, p, slots, valid=None, handle=False, key=None):
        self.tname = tname
        self.elem_t = elem_t
        self.p = p
        self.slots = slots       # [(guard, value)]
        self.valid = valid if valid is not None else z3.BoolVal(True)
        self.handle = handle
        self.key = key

    def __repr__(self):
        return f"Coll({self.tname}{'*'*self.p},{len(self.slots)} slots)"


class StrV:
    __slots__ = ("s",)

    def __init__(self, s):
        self.s = s

    def __repr__(self):
        return f"Str({self.s!r})"


class EnumV:
    __slots__ = ("name",)

    def __init__(self, name):
        self.name = name


class TokenV:
    __slots__ = ("of", "tag")

    def __init__(self, of, tag):
        self.of = of
        self.tag = tag      # bank string or None (uninitialised)


class Uninit:
    def __repr__(self):
        return "Uninit"


# ------------------------------------------------------------------ numeric helpers
RF = z3.Function("rf", z3.RealSort(), z3.RealSort())     # abstract double->float rounding


def real(v):
    if v.kind == "int":
        return z3.ToReal(v.t)
    if v.kind == "bool":
        return z3.If(v.t, z3.RealVal(1), z3.RealVal(0))
    return v.t


def trunc_to_int(r):
    return z3.If(r >= 0, z3.ToInt(r), -z3.ToInt(-r))


def toint(v):
    if v.kind == "int":
        return v.t
    if v.kind == "bool":
        return z3.If(v.t, z3.IntVal(1), z3.IntVal(0))
    return trunc_to_int(v.t)


def tobool(v):
    if v.kind == "bool":
        return v.t
    return v.t != 0


class Ctx:
    """Per-obligation context: collects rf applications (for idempotence axioms) and
    side constraints."""

    def __init__(self):
        self.rf_terms = []
        self.cons = []

    def rf(self, t):
        r = RF(t)
        self.rf_terms.append(r)
        return r

    def axioms(self):
        out = list(self.cons)
        seen = set()
        eps = z3.RealVal(1) / z3.RealVal(1 << 23)
        for r in self.rf_terms:
            k = r.get_id()
            if k in seen:
                continue
            seen.add(k)
            x = r.arg(0)
            ax = z3.If(x >= 0, x, -x)
            out.append(RF(r) == r)                                   # idempotent
            out.append(z3.And(r >= x - eps * ax, r <= x + eps * ax))  # relative error of binary32 rounding
            out.append(z3.Implies(z3.And(z3.IsInt(4 * x), ax <= (1 << 20)), r == x))  # small dyadics are exact
        return out


def conv(ctx, v, kind):
    "C++ conversion of a numeric value to the given kind."
    if v.kind == kind:
        return v
    if kind == "double":
        return Num("double", real(v))
    if kind == "float":
        if v.kind in ("int", "bool"):
            return Num("float", real(v))       # small ints are exact in float (|v|<2^24 by bound)
        return Num("float", ctx.rf(v.t))
    if kind == "int":
        if v.kind in ("double", "float"):
            # a floating value outside the range of int: the conversion is undefined behaviour (the machine stores INT_MIN);
            # modelled as an arbitrary int ('garb*' constants are what the encoder cross-check treats as unpredictable)
            ctx.n_intconv = getattr(ctx, "n_intconv", 0) + 1
            junk = z3.Int(f"garb_intconv_{id(ctx) % 100000}_{ctx.n_intconv}")
            lim = z3.RealVal(1 << 31)
            return Num("int", z3.If(z3.And(v.t > -lim - 1, v.t < lim), trunc_to_int(v.t), junk))
        return Num("int", toint(v))
    if kind == "bool":
        return Num("bool", tobool(v))
    raise ValueError(kind)


def cdiv(x, y):
    "C++ integer division (truncation toward zero) for y != 0."
    return z3.If(y > 0,
                 z3.If(x >= 0, x / y, -((-x) / y)),
                 z3.If(x >= 0, -(x / (-y)), (-x) / (-y)))


def cmod(x, y):
    return x - y * cdiv(x, y)


# ------------------------------------------------------------------ the event
class Event:
    """Symbolic event: store containers keyed by (container type, bank), per-(class,method)
    uninterpreted functions, string interning."""

    def __init__(self, dm: DataModel, N: int, tag=""):
        self.dm = dm
        self.N = N
        self.tag = tag
        self.store = {}        # (ctype, bank) -> dict(present, n, base)
        self.ufs = {}
        self.apps = {}         # uf key -> {term id: (arg terms, result term)}
        self.cons = []
        self.strings = {}
        self.float_vals = []   # terms that are float-typed inputs (rf fixpoints)
        self.method_apps = []  # (cls, method, oid term, args, result) for model extraction
        self.int_bound = 1 << 15

    def intern(self, s):
        if s not in self.strings:
            self.strings[s] = len(self.strings) + 1
        return self.strings[s]

    def store_entry(self, ctype, bank):
        k = (ctype, bank)
        if k not in self.store:
            idx = len(self.store) + 1
            safe = re.sub(r"\W", "_", f"{ctype}_{bank}")
            n = z3.Int(f"n_{safe}_{idx}")
            present = z3.Bool(f"present_{safe}_{idx}")
            self.cons += [n >= 0, n <= self.N]
            self.store[k] = dict(present=present, n=n, base=1000 * idx, idx=idx)
        return self.store[k]

    def fresh_oid_base(self):
        return 1000 * (len(self.store) + 50)

    def _uf(self, name, dom, rng):
        key = (name, tuple(str(d) for d in dom), str(rng))
        if key not in self.ufs:
            self.ufs[key] = z3.Function(re.sub(r"[^\w]", "_", name) + f"__{len(self.ufs)}", *dom, rng)
            self.apps[key] = {}
        f = self.ufs[key]
        apps = self.apps[key]

        def app(*args):
            t = f(*args)
            apps[t.get_id()] = (args, t)
            return t
        return app

    def sort_of(self, t):
        if isinstance(t, TNum):
            return {"double": z3.RealSort(), "float": z3.RealSort(), "int": z3.IntSort(), "bool": z3.BoolSort()}[t.kind]
        return z3.IntSort()

    def call_method(self, ctx, cls, ms: MethodSpec, oid, args):
        """Value of obj.method(args) for the object with id `oid` of class `cls`."""
        argts = []
        for a in args:
            if isinstance(a, Num):
                argts.append(real(a))
            elif isinstance(a, StrV):
                argts.append(z3.RealVal(self.intern(a.s)))
            elif isinstance(a, EnumV):
                argts.append(z3.RealVal(self.intern("enum:" + a.name)))
            elif isinstance(a, ObjV):
                argts.append(z3.ToReal(a.oid))
            else:
                raise TypeError(f"argument of kind {type(a).__name__} not supported in method call")
        dom = [z3.IntSort()] + [z3.RealSort()] * len(argts)
        name = f"{cls}.{ms.name}"
        ret = ms.ret
        if isinstance(ret, TNum):
            f = self._uf(name, dom, self.sort_of(ret))
            t = f(oid, *argts)
            if ret.kind == "int":
                self.cons += [t >= -self.int_bound, t <= self.int_bound]
            if ret.kind == "float":
                self.cons.append(RF(t) == t)
            return Num(ret.kind, t)
        if isinstance(ret, TObj):
            f = self._uf(name, dom, z3.IntSort())
            o = f(oid, *argts)
            null = z3.BoolVal(False)
            if ms.nullable and ret.p >= 1:
                fn = self._uf(name + "?null", dom, z3.BoolSort())
                null = fn(oid, *argts)
            return ObjV(ret.cls, ret.p, o, null, ret.ref)
        if isinstance(ret, TColl):
            fl = self._uf(name + "#len", dom, z3.IntSort())
            ln = fl(oid, *argts)
            self.cons += [ln >= 0, ln <= self.N]
            slots = []
            for k in range(self.N):
                slots.append((z3.IntVal(k) < ln, self.coll_elem(ctx, name, ret.elem, dom, [oid] + argts, k)))
            valid = z3.BoolVal(True)
            return CollV(ret.name, ret.elem, ret.p, slots, valid)
        raise TypeError(ret)

    def coll_elem(self, ctx, name, et, dom, args, k):
        if isinstance(et, TNum):
            f = self._uf(f"{name}#el", dom + [z3.IntSort()], self.sort_of(et))
            t = f(*args, z3.IntVal(k))
            if et.kind == "int":
                self.cons += [t >= -self.int_bound, t <= self.int_bound]
            if et.kind == "float":
                self.cons.append(RF(t) == t)
            return Num(et.kind, t)
        if isinstance(et, TObj):
            f = self._uf(f"{name}#el", dom + [z3.IntSort()], z3.IntSort())
            return ObjV(et.cls, et.p, f(*args, z3.IntVal(k)), None, et.ref)
        if isinstance(et, TColl):
            fl = self._uf(f"{name}#el#len", dom + [z3.IntSort()], z3.IntSort())
            ln = fl(*args, z3.IntVal(k))
            self.cons += [ln >= 0, ln <= self.N]
            slots = [(z3.IntVal(j) < ln, self.coll_elem(ctx, f"{name}#el", et.elem, dom + [z3.IntSort()], args + [z3.IntVal(k)], j))
                     for j in range(self.N)]
            return CollV(et.name, et.elem, et.p, slots)
        raise TypeError(et)

    def free_function(self, name, args, ret_kind="double"):
        name = re.sub(r"^std::", "", name)
        if name == "TVector2::Phi_mpi_pi" and len(args) == 1:
            # ROOT: the angle folded into [-pi, pi) by whole turns: r = x - 2*pi*k for the integer k that puts r in range
            # (pi is the double nearest to it, as M_PI / TMath::Pi() are)
            x = real(args[0])
            k = self._uf("fn:Phi_mpi_pi#turns", [z3.RealSort()], z3.IntSort())(x)
            r = x - 2 * PI_Q * z3.ToReal(k)
            self.cons += [r >= -PI_Q, r < PI_Q]
            return Num("double", r)
        dom = [z3.RealSort()] * len(args)
        f = self._uf("fn:" + name, dom, z3.RealSort() if ret_kind != "int" else z3.IntSort())
        return Num(ret_kind, f(*[real(a) for a in args]))

    def store_container(self, ctype, bank, elem_t, p, handle=False):
        e = self.store_entry(ctype, bank)
        slots = []
        for k in range(self.N):
            if isinstance(elem_t, TObj):
                v = ObjV(elem_t.cls, elem_t.p, z3.IntVal(e["base"] + k))
            else:
                raise TypeError("store containers hold objects")
            slots.append((z3.IntVal(k) < e["n"], v))
        return CollV(ctype, elem_t, p, slots, valid=e["present"], handle=handle, key=(ctype, bank))

    def store_singleton(self, ctype, bank, p):
        e = self.store_entry(ctype, bank)
        return ObjV(ctype, p, z3.IntVal(e["base"]), null=z3.Not(e["present"]))

    def constraints(self):
        return list(self.cons)
