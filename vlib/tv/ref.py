"""Reference LINQ/Python semantics of a func_adl query over the symbolic event (z3).

Interprets the ORIGINAL query AST (before any func_adl normalisation).  Shares only the
event vocabulary (uninterpreted functions, store containers) with the C++ executor.
"""
import ast

import z3

from . import mathfn
from .model import (CollV, Ctx, EnumV, Num, ObjV, StrV, TColl, TNum, TObj, KIND_RANK, cdiv, conv,
                    real, tobool, toint)
from .symexec import And, Not, Or, merge, select_kth, count, TRUE, FALSE


class RefUnsupported(Exception):
    "Query uses something the reference gives no meaning to (=> outside the supported fragment)."


class RSeq:
    "A sequence: guarded list in order."

    def __init__(self, slots):
        self.slots = slots

    def __repr__(self):
        return f"RSeq({len(self.slots)})"


class EventObj:
    pass


EVENT = EventObj()

LINQ = {"Select", "SelectMany", "Where", "Count", "Sum", "Min", "Max", "Aggregate", "First", "MetaData",
        "AsROOTTTree", "ResultTTree", "AsAwkwardArray", "AsPandasDF", "AsParquetFiles", "ResultAwkwardArray", "ResultPandasDF", "ResultParquet", "Range", "len"}


class Patches:
    """Known-finding patches of the reference semantics (see known_findings.jsonl)."""

    def __init__(self, names=()):
        self.names = set(names)

    def __contains__(self, n):
        return n in self.names


class Ref:
    def __init__(self, event, dm, ctx=None, patches=(), range_cap=None):
        self.ev = event
        self.dm = dm
        self.ctx = ctx or Ctx()
        self.undef = []      # (guard, kind)   kinds: first_empty, index, nullderef
        self.unspec = []     # guards under which the value is unspecified (Min/Max of empty)
        self.assumes = []    # premises (non-zero divisors, % operands non-negative, range cap)
        self.patches = Patches(patches)
        self.range_cap = range_cap if range_cap is not None else event.N + 1
        self.tree_name = None
        self.col_names = None
        self.features = set()
        self.requests = []   # (container type, bank) of every e.X("bank") evaluated

    # ---------------------------------------------------------------- helpers
    def as_seq(self, v, what):
        if isinstance(v, RSeq):
            return v
        if isinstance(v, CollV):
            return RSeq(list(v.slots))
        raise RefUnsupported(f"{what}: a {type(v).__name__} is not a sequence")

    def call_lambda(self, lam, args, env, g):
        if not isinstance(lam, ast.Lambda):
            raise RefUnsupported("callable is not a lambda")
        if len(lam.args.args) != len(args):
            raise RefUnsupported("lambda arity mismatch")
        e2 = dict(env)
        for p, a in zip(lam.args.args, args):
            e2[p.arg] = a
        return self.ev_(lam.body, e2, g)

    def arith_kind(self, a, b, div=False):
        ka = "int" if a.kind == "bool" else a.kind
        kb = "int" if b.kind == "bool" else b.kind
        k = max(ka, kb, key=lambda x: KIND_RANK[x])
        if div and k == "int":
            k = "double"
        return k

    def num_bin(self, op, a, b, g):
        if not (isinstance(a, Num) and isinstance(b, Num)):
            raise RefUnsupported(f"arithmetic on {type(a).__name__}/{type(b).__name__}")
        if isinstance(op, ast.Pow):
            self.features.add("pow")
            return mathfn.apply(self.ev, "pow", [a, b])
        if isinstance(op, ast.Div):
            k = self.arith_kind(a, b, div=True)
            x, y = real(a), real(b)
            self.assumes.append(z3.Implies(g, y != 0))
            if "intdiv_truncates" in self.patches and a.kind in ("int", "bool") and b.kind in ("int", "bool"):
                return Num("double", z3.ToReal(cdiv(toint(a), toint(b))))
            r = x / y
            if k == "float":
                r = self.ctx.rf(r)
            return Num(k, r)
        k = self.arith_kind(a, b)
        if isinstance(op, ast.Mod):
            if k != "int":
                self.features.add("mod_real")
                x, y = real(a), real(b)
                self.assumes += [z3.Implies(g, x >= 0), z3.Implies(g, y > 0)]
                q = z3.ToReal(z3.ToInt(x / y))
                return Num(k, x - y * q)
            x, y = toint(a), toint(b)
            self.assumes += [z3.Implies(g, x >= 0), z3.Implies(g, y > 0)]
            return Num("int", x % y)
        if k == "int":
            x, y = toint(a), toint(b)
        else:
            x, y = real(a), real(b)
        if isinstance(op, ast.Add):
            r = x + y
        elif isinstance(op, ast.Sub):
            r = x - y
        elif isinstance(op, ast.Mult):
            r = x * y
        else:
            raise RefUnsupported(f"operator {type(op).__name__}")
        if k == "float":
            r = self.ctx.rf(r)
        return Num(k, r)

    def compare(self, op, a, b):
        if isinstance(a, EnumV) or isinstance(b, EnumV):
            def code(v):
                if isinstance(v, EnumV):
                    return z3.RealVal(self.ev.intern("enum:" + v.name))
                if isinstance(v, Num):
                    return real(v)
                raise RefUnsupported("enum compared with non-number")
            x, y = code(a), code(b)
        elif isinstance(a, StrV) and isinstance(b, StrV):
            r = z3.BoolVal(a.s == b.s)
            if isinstance(op, ast.Eq):
                return Num("bool", r)
            if isinstance(op, ast.NotEq):
                return Num("bool", Not(r))
            raise RefUnsupported("ordering of strings")
        elif isinstance(a, Num) and isinstance(b, Num):
            x, y = real(a), real(b)
        else:
            raise RefUnsupported(f"comparison of {type(a).__name__} and {type(b).__name__}")
        t = {ast.Lt: lambda: x < y, ast.LtE: lambda: x <= y, ast.Gt: lambda: x > y, ast.GtE: lambda: x >= y,
             ast.Eq: lambda: x == y, ast.NotEq: lambda: x != y}.get(type(op))
        if t is None:
            raise RefUnsupported(f"comparison {type(op).__name__}")
        return Num("bool", t())

    def fold_minmax(self, seq, which, g):
        acc = None
        have = FALSE
        if "minmax_seed0" in self.patches:
            acc = Num("int", z3.IntVal(0))
            have = TRUE
        for sg, v in seq.slots:
            if not isinstance(v, Num):
                raise RefUnsupported(f"{which} over non-numbers")
            if acc is None:
                acc, have = v, sg
                continue
            k = self.arith_kind(acc, v)
            if "minmax_seed0" in self.patches:
                k = "double"
            better = (real(v) > real(acc)) if which == "Max" else (real(v) < real(acc))
            take = And(sg, Or(Not(have), better))
            acc = merge(take, conv(self.ctx, v, k), conv(self.ctx, acc, k))
            have = Or(have, sg)
        if acc is None:
            self.unspec.append(g)
            return Num("double", z3.RealVal(0))
        self.unspec.append(And(g, Not(have)))
        if "minmax_seed0" in self.patches and acc.kind != "double":
            acc = conv(self.ctx, acc, "double")
        return acc

    # ---------------------------------------------------------------- LINQ operators
    def linq(self, name, args, env, g):
        self.features.add(name)
        if name == "EventDataset":
            return RSeq([(TRUE, EVENT)])
        if name == "MetaData":
            return self.ev_(args[0], env, g)
        if name in ("AsROOTTTree", "ResultTTree"):
            src = self.ev_(args[0], env, g)
            names = ast.literal_eval(args[1])
            self.col_names = [names] if isinstance(names, str) else list(names)
            if len(args) > 2:
                self.tree_name = ast.literal_eval(args[2])
            return src
        if name == "Select":
            src = self.as_seq(self.ev_(args[0], env, g), "Select")
            return RSeq([(sg, self.call_lambda(args[1], [sv], env, And(g, sg))) for sg, sv in src.slots])
        if name == "Where":
            src = self.as_seq(self.ev_(args[0], env, g), "Where")
            out = []
            for sg, sv in src.slots:
                c = self.call_lambda(args[1], [sv], env, And(g, sg))
                if not isinstance(c, Num):
                    raise RefUnsupported("Where predicate is not a value")
                out.append((And(sg, tobool(c)), sv))
            return RSeq(out)
        if name == "SelectMany":
            src = self.as_seq(self.ev_(args[0], env, g), "SelectMany")
            out = []
            for sg, sv in src.slots:
                inner = self.as_seq(self.call_lambda(args[1], [sv], env, And(g, sg)), "SelectMany body")
                out += [(And(sg, ig), iv) for ig, iv in inner.slots]
            return RSeq(out)
        if name in ("Count", "len"):
            src = self.as_seq(self.ev_(args[0], env, g), "Count")
            return Num("int", count(src.slots))
        if name == "Sum":
            src = self.as_seq(self.ev_(args[0], env, g), "Sum")
            acc = Num("int", z3.IntVal(0))
            for sg, v in src.slots:
                if not isinstance(v, Num):
                    raise RefUnsupported("Sum over non-numbers")
                nxt = self.num_bin(ast.Add(), acc, v, And(g, sg))
                acc = merge(sg, nxt, conv(self.ctx, acc, nxt.kind))
            return acc
        if name in ("Min", "Max"):
            src = self.as_seq(self.ev_(args[0], env, g), name)
            return self.fold_minmax(src, name, g)
        if name == "Aggregate":
            if len(args) != 3 or isinstance(args[1], ast.Lambda):
                raise RefUnsupported("only Aggregate(seq, seed, func) has a meaning here")
            src = self.as_seq(self.ev_(args[0], env, g), "Aggregate")
            acc = self.ev_(args[1], env, g)
            if not isinstance(acc, Num):
                raise RefUnsupported("Aggregate seed must be a number")
            # the accumulator's kind is the widest kind it ever takes (python is dynamically typed)
            for sg, v in src.slots:
                nxt = self.call_lambda(args[2], [acc, v], env, And(g, sg))
                if not isinstance(nxt, Num):
                    raise RefUnsupported("Aggregate function must return a number")
                k = self.arith_kind(acc, nxt)
                acc = merge(sg, conv(self.ctx, nxt, k), conv(self.ctx, acc, k))
            return acc
        if name == "First":
            src = self.as_seq(self.ev_(args[0], env, g), "First")
            res = None
            anyp = FALSE
            for sg, v in reversed(src.slots):
                res = v if res is None else self.merge_any(sg, v, res)
            for sg, _ in src.slots:
                anyp = Or(anyp, sg)
            self.undef.append((And(g, Not(anyp)), "first_empty"))
            if res is None:
                raise RefUnsupported("First of a statically empty sequence")
            return res
        if name == "Range":
            lo = self.ev_(args[0], env, g)
            hi = self.ev_(args[1], env, g)
            if not (isinstance(lo, Num) and isinstance(hi, Num)):
                raise RefUnsupported("Range bounds")
            lo_t, hi_t = toint(lo), toint(hi)
            n = hi_t - lo_t
            ns = z3.simplify(n)
            if "range_computed_bound_unspecified" in self.patches and not (
                    z3.is_int_value(z3.simplify(hi_t)) and z3.is_int_value(z3.simplify(lo_t))):
                self.unspec.append(g)
            if z3.is_int_value(ns):
                cap = max(ns.as_long(), 0)
                if cap > 64:
                    raise RefUnsupported("Range larger than 64")
            else:
                cap = self.range_cap
                self.assumes.append(z3.Implies(g, n <= cap))
            return RSeq([(z3.IntVal(k) < n, Num("int", lo_t + k)) for k in range(cap)])
        raise RefUnsupported(f"LINQ operator {name}")

    def merge_any(self, c, a, b):
        if isinstance(a, RSeq) and isinstance(b, RSeq):
            return RSeq([(And(c, g), v) for g, v in a.slots] + [(And(Not(c), g), v) for g, v in b.slots])
        if isinstance(a, tuple) and isinstance(b, tuple) and len(a) == len(b):
            return tuple(self.merge_any(c, x, y) for x, y in zip(a, b))
        if isinstance(a, dict) and isinstance(b, dict) and list(a) == list(b):
            return {k: self.merge_any(c, a[k], b[k]) for k in a}
        if isinstance(a, CollV) and isinstance(b, RSeq):
            a = RSeq(list(a.slots))
        if isinstance(b, CollV) and isinstance(a, RSeq):
            b = RSeq(list(b.slots))
        if isinstance(a, RSeq) and isinstance(b, RSeq):
            return self.merge_any(c, a, b)
        return merge(c, a, b)

    # ---------------------------------------------------------------- expressions
    def ev_(self, n, env, g):
        if isinstance(n, ast.Call):
            return self.ev_call(n, env, g)
        if isinstance(n, ast.Name):
            if n.id in env:
                return env[n.id]
            # a namespace of a declared enum?
            for full, (ns, values) in self.dm.enums.items():
                if ns.split(".")[0] == n.id:
                    return ("ns", n.id)
            raise RefUnsupported(f"free name {n.id}")
        if isinstance(n, ast.Constant):
            v = n.value
            if isinstance(v, bool):
                return Num("bool", z3.BoolVal(v))
            if isinstance(v, int):
                return Num("int", z3.IntVal(v))
            if isinstance(v, float):
                if v != v or v in (float("inf"), float("-inf")):
                    raise RefUnsupported("non-finite float constant")
                # the literal denotes the decimal number repr() prints (the C++ side reads its literal text the same way): the exact
                # decimal on both sides, so that two texts are equal as reals iff they are the same decimal
                return Num("double", z3.RealVal(str(__import__("fractions").Fraction(repr(v)))))
            if isinstance(v, str):
                return StrV(v)
            raise RefUnsupported(f"constant {v!r}")
        if isinstance(n, ast.BinOp):
            a = self.ev_(n.left, env, g)
            b = self.ev_(n.right, env, g)
            self.features.add(type(n.op).__name__)
            return self.num_bin(n.op, a, b, g)
        if isinstance(n, ast.UnaryOp):
            v = self.ev_(n.operand, env, g)
            if not isinstance(v, Num):
                raise RefUnsupported("unary on non-number")
            if isinstance(n.op, ast.Not):
                return Num("bool", Not(tobool(v)))
            if isinstance(n.op, (ast.USub, ast.UAdd)):
                if v.kind == "bool":
                    v = conv(self.ctx, v, "int")
                return Num(v.kind, -v.t if isinstance(n.op, ast.USub) else v.t)
            raise RefUnsupported(f"unary {type(n.op).__name__}")
        if isinstance(n, ast.Compare):
            if len(n.ops) != 1:
                raise RefUnsupported("chained comparison")
            a = self.ev_(n.left, env, g)
            b = self.ev_(n.comparators[0], env, g)
            return self.compare(n.ops[0], a, b)
        if isinstance(n, ast.BoolOp):
            self.features.add("BoolOp")
            first = self.ev_(n.values[0], env, g)
            if not isinstance(first, Num):
                raise RefUnsupported("and/or on non-values")
            acc = tobool(first)
            for v in n.values[1:]:
                if isinstance(n.op, ast.And):
                    nv = self.ev_(v, env, And(g, acc))
                    acc = And(acc, tobool(nv))
                else:
                    nv = self.ev_(v, env, And(g, Not(acc)))
                    acc = Or(acc, tobool(nv))
            return Num("bool", acc)
        if isinstance(n, ast.IfExp):
            self.features.add("IfExp")
            c = self.ev_(n.test, env, g)
            if not isinstance(c, Num):
                raise RefUnsupported("condition is not a value")
            cb = tobool(c)
            a = self.ev_(n.body, env, And(g, cb))
            b = self.ev_(n.orelse, env, And(g, Not(cb)))
            if isinstance(a, Num) and isinstance(b, Num):
                # C03/C13: a conditional is a floating column carrying its arm's value
                return Num("double", z3.If(cb, real(a), real(b)))
            return self.merge_any(cb, a, b)
        if isinstance(n, (ast.Tuple, ast.List)):
            return tuple(self.ev_(e, env, g) for e in n.elts)
        if isinstance(n, ast.Dict):
            out = {}
            for k, v in zip(n.keys, n.values):
                if not (isinstance(k, ast.Constant) and isinstance(k.value, str)):
                    raise RefUnsupported("dict key")
                out[k.value] = self.ev_(v, env, g)
            return out
        if isinstance(n, ast.Subscript):
            self.features.add("Subscript")
            v = self.ev_(n.value, env, g)
            sl = n.slice
            if isinstance(sl, ast.Slice):
                raise RefUnsupported("slice")
            if isinstance(v, (tuple, dict)):
                if not isinstance(sl, ast.Constant):
                    raise RefUnsupported("non-constant index into tuple/dict")
                return v[sl.value]
            i = self.ev_(sl, env, g)
            if not isinstance(i, Num):
                raise RefUnsupported("index is not a number")
            seq = self.as_seq(v, "index")
            val, exists = select_kth(seq.slots, toint(i)) if seq.slots else (None, FALSE)
            self.undef.append((And(g, Not(exists)), "index"))
            if val is None:
                raise RefUnsupported("index into statically empty sequence")
            return val
        if isinstance(n, ast.Attribute):
            v = self.ev_(n.value, env, g)
            return self.attribute(v, n.attr, [], env, g, is_call=False)
        if isinstance(n, ast.Lambda):
            return ("closure", n, env)
        raise RefUnsupported(f"node {type(n).__name__}")

    def attribute(self, v, name, args, env, g, is_call):
        if v is EVENT:
            if name not in self.dm.colls:
                raise RefUnsupported(f"event has no collection {name}")
            spec = self.dm.colls[name]
            if len(args) != 1 or not isinstance(args[0], StrV):
                raise RefUnsupported("collection needs exactly one string argument")
            self.features.add("coll:" + name)
            self.requests.append((spec.container, args[0].s))
            if spec.singleton:
                o = self.ev.store_singleton(spec.container, args[0].s, 1)
                self.undef.append((And(g, o.null), "missing_collection"))
                return ObjV(spec.container, 0, o.oid, FALSE)
            c = self.ev.store_container(spec.container, args[0].s, TObj(spec.elem_cls, spec.elem_p), 0)
            self.undef.append((And(g, Not(c.valid)), "missing_collection"))
            return RSeq(list(c.slots))
        if isinstance(v, tuple) and len(v) == 2 and v[0] == "ns":
            # namespace / enum resolution: ns.Enum.Value
            path = v[1] + "." + name
            for full, (ns, values) in self.dm.enums.items():
                if full == path:
                    return ("enum", full, ns, values)
                if ns == path or ns.startswith(path + "."):
                    return ("ns", path)
            raise RefUnsupported(f"unknown name {path}")
        if isinstance(v, tuple) and len(v) == 4 and v[0] == "enum":
            if name not in v[3]:
                raise RefUnsupported(f"{name} is not a value of enum {v[1]}")
            return EnumV(f"{v[2]}.{name}")
        if isinstance(v, ObjV):
            self.undef.append((And(g, v.null), "nullderef"))
            nums = []
            for a in args:
                if isinstance(a, (Num, StrV, EnumV, ObjV)):
                    nums.append(a)
                else:
                    raise RefUnsupported("method argument must be a primitive")
            ms = self.dm.method(v.cls, name, len(nums))
            if name == "getAttributeFloat" and self.dm.backend == "atlas" and len(nums) == 1 and isinstance(nums[0], StrV):
                # documented ATLAS built-in: the float attribute of that name (the C++ side reads it with getAttribute<float>)
                from .model import MethodSpec, TNum
                ms = MethodSpec("getAttribute<float>", TNum("float"), 1)
            r = self.ev.call_method(self.ctx, v.cls, ms, v.oid, nums)
            if isinstance(r, CollV):
                return RSeq(list(r.slots))
            if isinstance(r, Num) and ms.tree_type:
                r = Num(r.kind, r.t, tk=ms.tree_type)
            return r
        if isinstance(v, dict) and not is_call:
            if name in v:
                return v[name]
        raise RefUnsupported(f"attribute {name} on {type(v).__name__}")

    def ev_call(self, n, env, g):
        f = n.func
        if n.keywords:
            raise RefUnsupported("keyword arguments")
        if isinstance(f, ast.Lambda):
            args = [self.ev_(a, env, g) for a in n.args]
            return self.call_lambda(f, args, env, g)
        if isinstance(f, ast.Name):
            name = f.id
            if name in env and isinstance(env[name], tuple) and env[name][0] == "closure":
                _, lam, cenv = env[name]
                return self.call_lambda(lam, [self.ev_(a, env, g) for a in n.args], cenv, g)
            if name in LINQ or name == "EventDataset":
                return self.linq(name, n.args, env, g)
            if name == "isNonnull":
                v = self.ev_(n.args[0], env, g)
                if not isinstance(v, ObjV):
                    raise RefUnsupported("isNonnull of non-object")
                self.features.add("isNonnull")
                return Num("bool", Not(v.null))
            if name == "DeltaR":
                a = [self.ev_(x, env, g) for x in n.args]
                if len(a) != 4 or not all(isinstance(x, Num) for x in a):
                    raise RefUnsupported("DeltaR(eta1, phi1, eta2, phi2)")
                self.features.add("DeltaR")
                d_eta = real(a[0]) - real(a[2])
                d_phi = self.ev.free_function("TVector2::Phi_mpi_pi", [Num("double", real(a[1]) - real(a[3]))]).t
                return mathfn.apply(self.ev, "sqrt", [Num("double", d_eta * d_eta + d_phi * d_phi)])
            for fn in self.dm.cpp_functions:
                if fn["name"] == name and "ref_lambda" in fn:
                    a = [self.ev_(x, env, g) for x in n.args]
                    return fn["ref_lambda"](self, a, g)
            if name in mathfn.DOCUMENTED:
                a = [self.ev_(x, env, g) for x in n.args]
                if not all(isinstance(x, Num) for x in a):
                    raise RefUnsupported("math function on non-numbers")
                self.features.add("math:" + name)
                if name == "abs" and len(a) == 1 and a[0].kind in ("int", "bool"):
                    # python: abs of an int (or bool) is an int
                    from .model import toint
                    x = toint(a[0])
                    return Num("int", z3.If(x >= 0, x, -x))
                r = mathfn.apply(self.ev, name, a)
                if mathfn.canonical(name) in mathfn.CPP_INT_RESULT:
                    from .model import real as _real
                    r = Num("int", z3.ToInt(_real(r)))       # the function of that name returns an integer
                return r
            if name in ("int", "float", "max", "min") and n.args and not n.keywords:
                # python builtins (not promised by the documentation; modelled so that an implementation that accepts them is checked)
                a = [self.ev_(x, env, g) for x in n.args]
                if not all(isinstance(x, Num) for x in a):
                    raise RefUnsupported(f"builtin {name} on non-numbers")
                from .model import real as _real, toint as _toint
                if name == "float" and len(a) == 1:
                    return Num("double", _real(a[0]))
                if name == "int" and len(a) == 1:
                    if a[0].kind in ("int", "bool"):
                        return Num("int", _toint(a[0]))
                    x = _real(a[0])
                    return Num("int", z3.If(x >= 0, z3.ToInt(x), -z3.ToInt(-x)))     # truncation toward zero
                if name in ("max", "min") and len(a) == 2:
                    kind = "int" if all(x.kind in ("int", "bool") for x in a) else "double"
                    x, y = ((_toint(a[0]), _toint(a[1])) if kind == "int" else (_real(a[0]), _real(a[1])))
                    pick = (x >= y) if name == "max" else (x <= y)
                    # python returns the chosen OPERAND (its own kind); as a column value that is its number
                    return Num(kind, z3.If(pick, x, y))
            raise RefUnsupported(f"function {name}")
        if isinstance(f, ast.Attribute):
            if f.attr in LINQ:
                return self.linq(f.attr, [f.value] + list(n.args), env, g)
            recv = self.ev_(f.value, env, g)
            args = [self.ev_(a, env, g) for a in n.args]
            for fn in self.dm.cpp_functions:
                if fn["name"] == f.attr and "ref_lambda" in fn and fn.get("method_object"):
                    return fn["ref_lambda"](self, [recv] + args, g)
            return self.attribute(recv, f.attr, args, env, g, is_call=True)
        raise RefUnsupported("call form")

    # ---------------------------------------------------------------- top level
    def run(self, query_ast):
        """Returns (rows, schema): rows = [(guard, {col: value})], schema = [(name, depth, kind)]."""
        top = self.ev_(query_ast, {}, TRUE)
        seq = self.as_seq(top, "query result")
        rows = []
        schema = None
        for sg, v in seq.slots:
            cols = self.columns(v)
            rows.append((sg, cols))
            sch = [(k, *shape(val, nested_tk="nested_tree_type_ignored" not in self.patches)) for k, val in cols.items()]
            if schema is None:
                schema = sch
        return rows, schema

    def columns(self, v):
        if isinstance(v, dict):
            items = list(v.items())
            if self.col_names is not None:
                if len(self.col_names) != len(items):
                    raise RefUnsupported("column/label count mismatch")
                items = [(n, val) for n, (_, val) in zip(self.col_names, items)]
        elif isinstance(v, tuple):
            names = self.col_names if self.col_names is not None else [f"col{i}" for i in range(len(v))]
            if len(names) != len(v):
                raise RefUnsupported("column/label count mismatch")
            items = list(zip(names, v))
        else:
            names = self.col_names if self.col_names is not None else ["col1"]
            if len(names) != 1:
                raise RefUnsupported("column/label count mismatch")
            items = [(names[0], v)]
        out = {}
        for k, val in items:
            if isinstance(val, CollV):
                val = RSeq(list(val.slots))
            if isinstance(val, (ObjV, EventObj, dict, tuple)):
                raise RefUnsupported("column is not a number or (nested) sequence of numbers")
            if k in out:
                raise RefUnsupported("duplicate column name")
            out[k] = val
        return out


def shape(v, nested_tk=True):
    "(depth, kind) of a column value; nested_tk=False: a declared tree_type is honoured for scalars and 1-D arrays only (known finding)"
    d = 0
    while isinstance(v, (RSeq, CollV)):
        d += 1
        inner = [x for _, x in v.slots]
        if not inner:
            return (d, None)
        v = inner[0]
    if isinstance(v, Num):
        return (d, "tree:" + v.tk if getattr(v, "tk", None) and (nested_tk or d <= 1) else v.kind)
    if isinstance(v, EnumV):
        return (d, "enum")
    return (d, type(v).__name__)
