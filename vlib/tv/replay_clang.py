"""Replay: compile the UNMODIFIED rendered package with clang++ against generated stubs of
the declared data model and run it on concrete events.  Used (a) to confirm solver
counterexamples before they are reported, (b) to cross-validate the encoder."""
import json
import os
import re
import shutil
import subprocess
from fractions import Fraction
from pathlib import Path

from .model import TColl, TNum, TObj, DataModel
from .concrete import ConcreteEvent

STUBS = Path(__file__).resolve().parents[2] / "stubs"
SYSTEM_HEADERS = {"math.h", "stdlib.h", "stdio.h", "string.h", "assert.h"}


class ReplayUnsupported(Exception):
    pass


def cq(text):
    """C++ narrow string literal whose BYTES are the UTF-8 encoding of `text` (lone surrogates U+DC80..U+DCFF stand for the
    single bytes 0x80..0xFF, the convention of symexec.cpp_unescape); everything outside printable ASCII as 3-digit octal."""
    out = []
    for b in text.encode("utf-8", "surrogateescape"):
        ch = chr(b)
        if ch in '"\\?':
            out.append("\\" + ch)
        elif 0x20 <= b < 0x7F:
            out.append(ch)
        else:
            out.append("\\%03o" % b)
    return '"' + "".join(out) + '"'


def split_ns(full):
    parts = full.split("::")
    return parts[:-1], parts[-1]


def cpp_ret_type(t):
    if isinstance(t, TNum):
        return t.kind
    if isinstance(t, TObj):
        if t.ref:
            return f"edm::Ref<{t.cls}>"
        if t.p == 0:
            return t.cls
        return "const " + t.cls + "*" + "const*" * (t.p - 1)
    if isinstance(t, TColl):
        if t.p == 0:
            return t.name
        return "const " + t.name + "*"
    raise ReplayUnsupported(str(t))


def elem_cpp(t):
    if isinstance(t, TNum):
        return t.kind
    if isinstance(t, TObj):
        if t.p == 0:
            return t.cls
        if t.p == 1 and not t.ref:
            return "const " + t.cls + "*"
    if isinstance(t, TColl) and t.p == 0:
        return t.name
    raise ReplayUnsupported(f"element type {t}")


def method_names_in(texts):
    names = set()
    for t in texts:
        for m in re.finditer(r"(?:\.|->)\s*([A-Za-z_]\w*)\s*(?:<[^<>()]*(?:<[^<>()]*>)?[^<>()]*>)?\s*\(", t):
            names.add(m.group(1))
    return names - {"push_back", "clear", "begin", "end", "at", "size", "Fill", "Branch", "retrieve",
                    "getByLabel", "getByToken", "make", "isValid", "isSuccess", "empty"}


def gen_model_header(dm: DataModel, backend, code_texts, strings):
    """C++ header: model classes for every class of the data model, the store and its
    retrieval entry points.  Generated from the declarations the program carries."""
    classes = {}

    def need(cls):
        if cls in ("double", "float", "int", "bool", "?"):
            return
        if cls not in classes:
            classes[cls] = dm.cls(cls)

    def need_type(t):
        if isinstance(t, TObj):
            need(t.cls)
        elif isinstance(t, TColl):
            need_type(t.elem)

    called = method_names_in(code_texts)
    alltext = "\n".join(code_texts)
    for spec in dm.colls.values():
        if spec.container in alltext:
            need(spec.elem_cls if not spec.singleton else spec.container)
    changed = True
    while changed:
        changed = False
        for c in list(classes.values()):
            for m in c.methods.values():
                if m.name.split("<")[0] not in called:
                    continue
                before = len(classes)
                need_type(m.ret)
                changed |= len(classes) != before
    # custom collection types returned by methods
    colltypes = {}
    for c in classes.values():
        for m in c.methods.values():
            t = m.ret
            while isinstance(t, TColl):
                if not re.match(r"^(std::)?vector<", t.name):
                    colltypes[t.name] = t
                t = t.elem
    store_colls = {}
    for spec in dm.colls.values():
        if not spec.singleton and spec.container in alltext:
            store_colls[spec.container] = TColl(spec.container, TObj(spec.elem_cls, spec.elem_p), 0)
    for n in classes:
        if dm.smart_depth(n) > 0:
            raise ReplayUnsupported(f"class {n} with deref_count semantics has no replay stub")
    for n in classes:
        for other in classes:
            if other != n and other.startswith(n + "::"):
                raise ReplayUnsupported(f"nested class {other}")
    out = ['#pragma once', '#include "verif_rt.h"',
           'namespace edm { template<class T> struct Ref { const T* p; bool isnull; '
           'const T* operator->() const { if (isnull) vrt::fault("nullderef", "-> on null Ref"); return p; } '
           'const T& operator*() const { if (isnull) vrt::fault("nullderef", "* on null Ref"); return *p; } '
           'bool isNonnull() const { return !isnull; } bool isNull() const { return isnull; } bool isAvailable() const { return !isnull; } }; }']
    # enums
    class_enums = {}
    for full, (ns, values) in dm.enums.items():
        parts = ns.split(".")
        name = full.split(".")[-1]
        vals = ", ".join(f"{v} = {strings.get('enum:' + ns + '.' + v, 0)}" for v in values)
        if "::".join(parts) in classes:
            # the enum's "namespace" is a class of the data model (xAOD::Jet::Color): it is declared inside that class
            class_enums.setdefault("::".join(parts), []).append(f"  enum {name} {{ {vals} }};")
            continue
        opens = " ".join(f"namespace {p} {{" for p in parts)
        out.append(f"{opens} enum {name} {{ {vals} }}; {'}' * len(parts)}")
    # forward declarations
    def open_ns(full):
        ns, n = split_ns(full)
        return " ".join(f"namespace {p} {{" for p in ns), n, "}" * len(ns)
    for full in list(classes) + list(colltypes) + list(store_colls):
        o, n, c = open_ns(full)
        out.append(f"{o} struct {n}; {c}")
    out.append("template<class T> const T* verif_obj(long oid);")
    out.append("template<class T> const T* verif_poison();")
    out.append("template<class T> T verif_build(const std::string& name, std::vector<double> a);")
    # class definitions (declarations of methods only)
    for full, c in classes.items():
        o, n, cl = open_ns(full)
        lines = [f"{o} struct {n} {{ long oid;"] + class_enums.get(full, [])
        names = {m for m in c.methods if m.split("<")[0] in called} | called
        for mn in sorted(names):
            base = mn.split("<")[0]
            ms = dm.method(full, mn)
            if "<" in mn:
                continue
            if mn in c.methods:
                rt = cpp_ret_type(ms.ret)
            else:
                rt = "double"
            lines.append(f"  template<class... A> {rt} {base}(A... a) const;")
        if "getAttribute" in called or any(k.startswith("getAttribute<") for k in c.methods):
            lines.append("  template<class T> T getAttribute(const std::string& n) const;")
        lines.append(f"}}; {cl}")
        out.append("\n".join(lines))
    for name, t in list(colltypes.items()) + list(store_colls.items()):
        o, n, cl = open_ns(name)
        out.append(f"{o} struct {n} : std::vector<{elem_cpp(t.elem)}> {{}}; {cl}")
    # pools
    out.append("""
template<class T> const T* verif_obj(long oid) {
  static std::map<long, T*> pool; auto it = pool.find(oid);
  if (it != pool.end()) return it->second; T* t = new T(); t->oid = oid; pool[oid] = t; return t; }
template<class T> const T* verif_poison() { return verif_obj<T>(-7777); }
template<class T> struct verif_builder;
template<> struct verif_builder<double> { static double go(const std::string& n, std::vector<double> a) { return vrt::tbl(n, a); } };
template<> struct verif_builder<float> { static float go(const std::string& n, std::vector<double> a) { return (float)vrt::tbl(n, a); } };
template<> struct verif_builder<int> { static int go(const std::string& n, std::vector<double> a) { return (int)vrt::tbl(n, a); } };
template<> struct verif_builder<bool> { static bool go(const std::string& n, std::vector<double> a) { return vrt::tbl(n, a) != 0; } };
template<class T> struct verif_builder<const T*> { static const T* go(const std::string& n, std::vector<double> a) { return verif_obj<T>((long)vrt::tbl(n, a)); } };
template<class T> struct verif_builder { static T go(const std::string& n, std::vector<double> a) { return *verif_obj<T>((long)vrt::tbl(n, a)); } };
template<class C> C verif_build_coll(const std::string& n, std::vector<double> a) {
  C c; int len = (int)vrt::tbl(n + "#len", a);
  for (int k = 0; k < len; ++k) { auto b = a; b.push_back(k); c.push_back(verif_build<typename C::value_type>(n + "#el", b)); }
  return c; }
template<class E> struct verif_builder<std::vector<E>> { static std::vector<E> go(const std::string& n, std::vector<double> a) { return verif_build_coll<std::vector<E>>(n.substr(0, n.size()), a); } };
""")
    for name in list(colltypes):
        out.append(f"template<> struct verif_builder<{name}> {{ static {name} go(const std::string& n, std::vector<double> a) {{ return verif_build_coll<{name}>(n, a); }} }};")
    out.append("template<class T> T verif_build(const std::string& name, std::vector<double> a) { return verif_builder<T>::go(name, a); }")
    out.append("inline void verif_check(long oid) { if (oid == -7777) vrt::fault(\"nullderef\", \"method called through null pointer\"); }")
    # method definitions
    for full, c in classes.items():
        names = {m for m in c.methods if m.split("<")[0] in called} | called
        for mn in sorted(names):
            if "<" in mn:
                continue
            ms = dm.method(full, mn)
            key = f"{full}.{mn}"
            head = f"template<class... A> "
            if mn not in c.methods:
                out.append(f'{head}double {full}::{mn}(A... a) const {{ verif_check(oid); return vrt::tbl("{key}", {{(double)oid, vrt::arg(a)...}}); }}')
                continue
            t = ms.ret
            rt = cpp_ret_type(t)
            args = "{(double)oid, vrt::arg(a)...}"
            if isinstance(t, TNum):
                body = f'return verif_build<{t.kind}>("{key}", {args});'
            elif isinstance(t, TObj):
                nullx = f'(vrt::tbl("{key}?null", {args}) != 0)' if (ms.nullable and t.p >= 1) else "false"
                if t.ref:
                    body = f'long o = (long)vrt::tbl("{key}", {args}); return edm::Ref<{t.cls}>{{verif_obj<{t.cls}>(o), {nullx}}};'
                elif t.p == 0:
                    body = f'return *verif_obj<{t.cls}>((long)vrt::tbl("{key}", {args}));'
                elif t.p == 1:
                    body = f'long o = (long)vrt::tbl("{key}", {args}); if ({nullx}) return verif_poison<{t.cls}>(); return verif_obj<{t.cls}>(o);'
                elif t.p == 2:
                    body = (f'static std::deque<const {t.cls}*> pool; long o = (long)vrt::tbl("{key}", {args}); '
                            f'pool.push_back({nullx} ? verif_poison<{t.cls}>() : verif_obj<{t.cls}>(o)); return &pool.back();')
                else:
                    raise ReplayUnsupported("pointer depth > 2")
            elif isinstance(t, TColl):
                if t.p == 0:
                    body = f'return verif_build_coll<{t.name}>("{key}", {args});'
                elif t.p == 1:
                    body = f'static std::deque<{t.name}> pool; pool.push_back(verif_build_coll<{t.name}>("{key}", {args})); return &pool.back();'
                else:
                    raise ReplayUnsupported("collection pointer depth > 1")
            out.append(f"{head}{rt} {full}::{mn}(A... a) const {{ verif_check(oid); {body} }}")
        if "getAttribute" in called or any(k.startswith("getAttribute<") for k in c.methods):
            out.append(f'template<class T> T {full}::getAttribute(const std::string& n) const {{ verif_check(oid); '
                       f'return verif_build<T>(std::string("{full}.getAttribute<") + vrt::tyname<T>::n() + ">", {{(double)oid, vrt::arg(n)}}); }}')
    # the store
    if backend == "atlas":
        out.append('#include "verif_fw_atlas.h"')
        names_ = list(store_colls) + [spec.container for spec in dm.colls.values() if spec.singleton and spec.container in alltext]
        lines = ["template <class T> struct VerifStoreName { static const char* n() { return \"?\"; } };"]
        for nm_ in dict.fromkeys(names_):
            lines.append(f'template <> struct VerifStoreName<{nm_}> {{ static const char* n() {{ return "{nm_}"; }} }};')
        lines.append("struct VerifEvtStore {")
        for name, t in store_colls.items():
            lines.append(f"""  StatusCode retrieve(const {name}*& r, const std::string& key) {{
    std::cout << "REQUEST retrieve {name} " << key << "\\n";
    auto it = vrt::cur()->store.find({{"{name}", key}});
    if (it == vrt::cur()->store.end() || !it->second.present) return StatusCode::FAILURE;
    static std::deque<{name}> pool; pool.emplace_back();
    for (int k = 0; k < it->second.n; ++k) pool.back().push_back(verif_obj<{t.elem.cls}>(it->second.base + k));
    r = &pool.back(); return StatusCode::SUCCESS; }}""")
        for spec in dm.colls.values():
            if spec.singleton and spec.container in alltext:
                lines.append(f"""  StatusCode retrieve(const {spec.container}*& r, const std::string& key) {{
    std::cout << "REQUEST retrieve {spec.container} " << key << "\\n";
    auto it = vrt::cur()->store.find({{"{spec.container}", key}});
    if (it == vrt::cur()->store.end() || !it->second.present) return StatusCode::FAILURE;
    r = verif_obj<{spec.container}>(it->second.base); return StatusCode::SUCCESS; }}""")
        lines.append("""  template <class T> bool contains(const std::string& key) const {
    auto it = vrt::cur()->store.find({VerifStoreName<T>::n(), key});
    return it != vrt::cur()->store.end() && it->second.present; }""")
        lines.append("};")
        lines.append("inline VerifEvtStore* verif_store() { static VerifEvtStore s; return &s; }")
        out.append("\n".join(lines))
    else:
        out.append('#include "verif_fw_cms.h"')
        for name, t in store_colls.items():
            out.append(f'namespace edm {{ template<> struct StoreName<{name}> {{ static const char* n() {{ return "{name}"; }} }}; }}')
        out.append("""namespace edm { template <class T> std::shared_ptr<T> verif_fetch(const std::string& type, const std::string& bank) {
  auto it = vrt::cur()->store.find({type, bank});
  if (it == vrt::cur()->store.end() || !it->second.present) return nullptr;
  auto p = std::make_shared<T>();
  for (int k = 0; k < it->second.n; ++k) p->push_back(*verif_obj<typename T::value_type>(it->second.base + k));
  return p; } }""")
    return "\n".join(out) + "\n"


def cnum(x):
    if isinstance(x, bool):
        return "1" if x else "0"
    if isinstance(x, Fraction):
        if x.denominator == 1:
            return f"{x.numerator}.0"
        return repr(float(x))
    if isinstance(x, int):
        return f"{x}.0"
    return repr(float(x))


def gen_driver(backend, events, strings):
    lines = ['#include "verif_all.h"']
    if backend == "atlas":
        lines.append("#include <analysis/query.h>")
    lines.append("static void setup(std::vector<vrt::EventData>& evs) {")
    for s, i in strings.items():
        lines.append(f"  vrt::strings()[{cq(s)}] = {i};")
    for ce in events:
        lines.append("  { vrt::EventData e;")
        for (ctype, bank), v in ce.store.items():
            lines.append(f"    e.store[{{{cq(ctype)}, {cq(bank)}}}] = {{{'true' if v['present'] else 'false'}, {v['n']}, {v['base']}}};")
        for name, (entries, els, rng) in ce.tables.items():
            lines.append(f"    {{ vrt::TTable t; t.els = {cnum(els)};")
            for k, val in entries.items():
                lines.append(f"      t.e.push_back({{{{{', '.join(cnum(a) for a in k)}}}, {cnum(val)}}});")
            lines.append(f"      e.tables[{cq(name)}] = t; }}")
        lines.append("    evs.push_back(e); }")
    lines.append("}")
    if backend == "atlas":
        lines.append("""int main() {
  signal(SIGSEGV, vrt::segv_handler);
  std::vector<vrt::EventData> evs; setup(evs);
  query q("q", nullptr);
  if (!q.initialize().isSuccess()) { std::cout << "FAULT status initialize\\n"; return 0; }
  for (auto& e : evs) {
    vrt::cur() = &e; std::cout << "EVENT\\n";
    try { if (!q.execute().isSuccess()) { std::cout << "FAULT status execute\\n"; return 0; } }
    catch (std::out_of_range& x) { std::cout << "FAULT out_of_range " << x.what() << "\\n"; return 0; }
    catch (std::exception& x) { std::cout << "FAULT throw " << x.what() << "\\n"; return 0; }
  }
  std::cout << "DONE\\n"; return 0; }""")
    else:
        lines.append("""int main() {
  signal(SIGSEGV, vrt::segv_handler);
  std::vector<vrt::EventData> evs; setup(evs);
  edm::ParameterSet ps; edm::EventSetup es; edm::Event ev;
  Analyzer a(ps);
  for (auto& e : evs) {
    vrt::cur() = &e; std::cout << "EVENT\\n";
    try { a.analyze(ev, es); }
    catch (std::out_of_range& x) { std::cout << "FAULT out_of_range " << x.what() << "\\n"; return 0; }
    catch (std::exception& x) { std::cout << "FAULT throw " << x.what() << "\\n"; return 0; }
  }
  std::cout << "DONE\\n"; return 0; }""")
    return "\n".join(lines) + "\n"


def build_dir(pkg, dm, strings, workdir: Path):
    """Lay out the rendered package + stubs under workdir. Returns list of source files."""
    workdir.mkdir(parents=True, exist_ok=True)
    inc = workdir / "inc"
    inc.mkdir(exist_ok=True)
    texts = [pkg.files[f] for f in pkg.files if f.endswith((".cxx", ".cc", ".h"))]
    for f in ("verif_rt.h", "verif_fw_atlas.h", "verif_fw_cms.h"):
        shutil.copy(STUBS / f, inc / f)
    (inc / "verif_model.h").write_text(gen_model_header(dm, pkg.backend, texts, strings))
    (inc / "verif_all.h").write_text('#pragma once\n#include "verif_model.h"\n')
    for t in texts:
        for m in re.finditer(r'^\s*#include\s*[<"]([^>"]+)[>"]', t, re.M):
            h = m.group(1)
            if h in SYSTEM_HEADERS or "." not in h or h == "analysis/query.h":
                continue
            p = inc / h
            p.parent.mkdir(parents=True, exist_ok=True)
            p.write_text('#include "verif_all.h"\n')
    srcs = []
    if pkg.backend == "atlas":
        (inc / "analysis").mkdir(exist_ok=True)
        (inc / "analysis" / "query.h").write_text(pkg.files["query.h"])
        (workdir / "query.cxx").write_text(pkg.files["query.cxx"])
        srcs.append("query.cxx")
    else:
        (workdir / "Analyzer.cc").write_text(pkg.files["Analyzer.cc"])
    return srcs


def compile_and_run(pkg, dm, events, strings, workdir: Path, syntax_only=False, timeout=120):
    """Returns dict(ok_compile, compile_log, stdout, outcome) where outcome is the parsed run."""
    srcs = build_dir(pkg, dm, strings, workdir)
    drv = gen_driver(pkg.backend, events, strings)
    if pkg.backend != "atlas":
        drv = drv.replace('#include "verif_all.h"', '#include "verif_all.h"\n#define private public\n#include "Analyzer.cc"\n#undef private', 1)
    (workdir / "driver.cxx").write_text(drv)
    cmd = ["clang++", "-std=c++17", "-O0", "-w", "-Iinc", "-I."]
    if syntax_only:
        cmd += ["-fsyntax-only"]
    else:
        cmd += ["-o", "replay"]
    cmd += ["driver.cxx"] + srcs
    r = subprocess.run(cmd, cwd=workdir, capture_output=True, text=True, errors="surrogateescape", timeout=timeout)
    res = {"ok_compile": r.returncode == 0, "compile_log": (r.stderr or "")[:4000], "cmd": " ".join(cmd)}
    if r.returncode != 0 or syntax_only:
        return res
    rr = subprocess.run(["./replay"], cwd=workdir, capture_output=True, text=True, errors="surrogateescape", timeout=timeout)
    res["stdout"] = rr.stdout
    res["returncode"] = rr.returncode
    res["outcome"] = parse_output(rr.stdout, rr.returncode)
    return res


def parse_value(s):
    s = s.strip()
    if s.startswith("["):
        inner = s[1:-1]
        if not inner:
            return []
        parts, depth, cur = [], 0, ""
        for ch in inner:
            if ch == "[":
                depth += 1
            elif ch == "]":
                depth -= 1
            if ch == "," and depth == 0:
                parts.append(cur)
                cur = ""
            else:
                cur += ch
        parts.append(cur)
        return [parse_value(p) for p in parts]
    if s == "true":
        return True
    if s == "false":
        return False
    try:
        return int(s)
    except ValueError:
        return float(s)


def parse_output(out, rc=0):
    """-> dict(branches=[(tree,name,type)], events=[{'rows':[(tree,{col:val})], 'fault':(kind,msg)|None}], requests=[...])"""
    branches, events, requests = [], [], []
    cur = None
    done = False
    for ln in out.splitlines():
        if ln.startswith("BRANCH "):
            _, t, n, ty = ln.split(" ", 3)
            branches.append((t, n, ty))
        elif ln == "EVENT":
            cur = {"rows": [], "fault": None}
            events.append(cur)
        elif ln.startswith("REQUEST "):
            parts = ln.split(" ", 3)
            requests.append(tuple(parts[1:]) + (("",) if len(parts) < 4 else ()))
        elif ln.startswith("ROW "):
            toks = ln.split(" ")
            tree = toks[1]
            cols = {}
            for t in toks[2:]:
                k, _, v = t.partition("=")
                cols[k] = parse_value(v)
            (cur["rows"] if cur is not None else events).append((tree, cols))
        elif ln.startswith("FAULT "):
            parts = ln.split(" ", 2)
            f = (parts[1], parts[2] if len(parts) > 2 else "")
            if cur is None:
                cur = {"rows": [], "fault": f}
                events.append(cur)
            else:
                cur["fault"] = f
        elif ln == "DONE":
            done = True
    if not done and (not events or events[-1]["fault"] is None):
        if not events:
            events.append({"rows": [], "fault": None})
        events[-1]["fault"] = ("crash", f"exit {rc}")
    return {"branches": branches, "events": events, "requests": requests}


def values_close(a, b, rel=1e-9, ab=1e-9):
    if isinstance(a, list) or isinstance(b, list):
        if not (isinstance(a, list) and isinstance(b, list)) or len(a) != len(b):
            return False
        return all(values_close(x, y, rel, ab) for x, y in zip(a, b))
    if isinstance(a, bool) or isinstance(b, bool):
        return float(a) == float(b)
    fa, fb = float(a), float(b)
    if fa != fa or fb != fb:
        return fa != fa and fb != fb
    if fa in (float("inf"), float("-inf")) or fb in (float("inf"), float("-inf")):
        return fa == fb
    return abs(fa - fb) <= ab + rel * max(abs(fa), abs(fb))
