"""Per-program pipeline of engine A: translate -> encode -> discharge obligations ->
replay counterexamples on the real compiled package -> classify."""
import ast
import hashlib
import json
import os
import shutil
import time
import traceback
from pathlib import Path

import z3

from . import cxx, frontend
from .concrete import ConcreteEvent, CRef, zval
from .equiv import (Encoded, Program, Verdict, LOUD, SILENT, KIND_OK, check_sat, discharge, schema_of_cpp,
                    with_metadata)
from .model import CollV, DataModel, EnumV, Num, ObjV, TColl, TNum
from .ref import RefUnsupported, RSeq
from .replay_clang import ReplayUnsupported, compile_and_run, values_close
from .symexec import And, IllTyped, Not, Or, Unsupported, FALSE, TRUE
from .translate import TranslationRaised, scratch_root, translate

from ..common import REPLAYS as REPLAY_ROOT  # noqa: E402


def model_value(model, v):
    "Plain python value of a symbolic value under a model."
    if isinstance(v, Num):
        x = zval(model.eval(v.t, model_completion=True))
        if v.kind in ("double", "float"):
            return float(x)
        if v.kind == "int":
            return int(x)
        return bool(x)
    if isinstance(v, (CollV, RSeq)):
        return [model_value(model, sv) for sg, sv in v.slots if z3.is_true(model.eval(sg, model_completion=True))]
    if isinstance(v, EnumV):
        return v.name
    raise ValueError(type(v).__name__)


def mentions_prestate(v):
    "does a symbolic value depend on an arbitrary pre-state / uninitialised value (pre*, garb* constants)?"
    seen = set()

    def walk(t):
        if t.get_id() in seen:
            return False
        seen.add(t.get_id())
        if z3.is_const(t) and t.decl().kind() == z3.Z3_OP_UNINTERPRETED:
            n = t.decl().name()
            return n.startswith("pre") or n.startswith("garb")
        return any(walk(c) for c in t.children())
    if isinstance(v, Num):
        return walk(v.t)
    if isinstance(v, (CollV, RSeq)):
        return any(walk(g) or mentions_prestate(x) for g, x in v.slots)
    return False


def predict_cpp(enc: Encoded, model):
    "What the symbolic executor says the C++ does on the model's event."
    fault = None
    for g, kind, info in enc.exec.faults:
        if z3.is_true(model.eval(g, model_completion=True)):
            fault = (kind, info)
            break
    rows = []
    for g, t, cols in enc.exec.rows:
        if z3.is_true(model.eval(g, model_completion=True)):
            # a column that reads stale / uninitialised storage has no predictable value: marked None
            rows.append((t, {k: (None if mentions_prestate(v) else model_value(model, v)) for k, v in cols.items()}))
    return {"rows": rows, "fault": fault}


def predict_ref(enc: Encoded, model):
    for g, kind in enc.ref.undef:
        if z3.is_true(model.eval(g, model_completion=True)):
            return ("undefined", kind)
    for g in enc.ref.unspec:
        if z3.is_true(model.eval(g, model_completion=True)):
            return ("unspecified",)
    rows = []
    for g, cols in enc.ref_rows:
        if z3.is_true(model.eval(g, model_completion=True)):
            rows.append({k: model_value(model, v) for k, v in cols.items()})
    return ("rows", rows)


# programs tagged 'exact' (a literal is the whole column: no arithmetic, hence no rounding to tolerate) are replayed with exact
# comparison of the printed %.17g doubles; set per program in Analyzer.analyse (one program at a time per worker process)
EXACT = False


def rows_match(cpp_rows, ref_rows, treename):
    mine = [cols for t, cols in cpp_rows if t == treename]
    if len(mine) != len(ref_rows):
        return False
    for a, b in zip(mine, ref_rows):
        if list(a.keys()) != list(b.keys()):
            if set(a.keys()) != set(b.keys()):
                return False
        for k in b:
            if not (values_close(a[k], b[k], 0.0, 0.0) if EXACT else values_close(a[k], b[k])):
                return False
    return True


def outcome_mismatch(cpp, ref, treename):
    """cpp: {'rows','fault'}; ref: ('rows', rows)|('undefined',kind)|('unspecified',).
    Returns (mismatch: bool|None, text).  None = not comparable on this event."""
    if ref[0] == "unspecified":
        return None, "reference unspecified on this event"
    if ref[0] == "undefined":
        if ref[1] in ("first_empty", "index"):
            if cpp["fault"] is None:
                return True, f"query undefined ({ref[1]}) but the job did not fail; rows={cpp['rows']}"
            if cpp["fault"][0] not in LOUD:
                return True, f"query undefined ({ref[1]}) but the job failed silently/UB: {cpp['fault']}"
            return False, "both fail"
        return None, f"reference undefined ({ref[1]}) outside the property's partial operations"
    if cpp["fault"] is not None:
        return True, f"query defined but the job faulted: {cpp['fault']}"
    if not rows_match(cpp["rows"], ref[1], treename):
        mine = [c for t, c in cpp["rows"] if t == treename]
        return True, f"rows differ: job={mine} query={ref[1]}"
    return False, "rows agree"


FP_FLAG_RE = __import__("re").compile(
    r"(?<![\w-])(-Ofast|-ffast-math|-funsafe-math-optimizations|-ffinite-math-only|-fassociative-math|-freciprocal-math|"
    r"-fno-signed-zeros|-fno-honor-nans|-fno-honor-infinities|-fapprox-func|-ffp-model=fast|-mrecip(?:=[\w,!-]+)?|"
    r"-fcx-limited-range)(?![\w-])")

_FP_WITNESS = r"""
#include <cmath>
#include <cstdio>
#include <cstring>
#include <limits>
static void show(const char *n, double v) { unsigned long long b; std::memcpy(&b, &v, 8); std::printf("%s %016llx\n", n, b); }
int main(int argc, char **) {
  volatile double mz = -0.0, minf = -std::numeric_limits<double>::infinity(), nan = std::nan(""), a = 0.3, b = 50.1, c = 3.0, d = 10.0,
                  x = 1e16, y = -1e16, z = 1.0, h1 = 3.0, h2 = 4.1, seven = 7.0;
  double A = a, B = b, C = c, D = d, X = x, Y = y, Z = z;
  show("pow(-0,0.5)", std::pow(mz, 0.5));
  show("pow(-inf,0.5)", std::pow(minf, 0.5));
  show("sin(a)/3", std::sin(A) / 3.0);
  show("log(b)/10", std::log(B) / 10.0);
  show("hypot/7+1", std::hypot(h1, h2) / 7.0 + 1.0);
  show("(x+y)+z", (X + Y) + Z);
  show("x+(y+z)", X + (Y + Z));
  show("a/c", A / C);
  show("b/d", B / D);
  show("isnan", std::isnan(nan) ? 1.0 : 0.0);
  show("nan!=nan", (nan != nan) ? 1.0 : 0.0);
  show("isinf", std::isinf(minf) ? 1.0 : 0.0);
  show("fmax(nan,1)", std::fmax(nan, Z));
  show("0*-0", 0.0 * mz);
  show("a-a*1", A - A * Z);
  return 0;
}
"""
_FP_WITNESS_CACHE = {}


def fp_flags_witness(flags):
    """(differs, text): does compiling the witness with `flags` change any printed bit pattern?  Tried with every installed
    compiler the replay can use; cached per flag set (one compile per worker process at most)."""
    if flags in _FP_WITNESS_CACHE:
        return _FP_WITNESS_CACHE[flags]
    import subprocess
    import tempfile
    out = (False, "no compiler available")
    with tempfile.TemporaryDirectory(prefix="verif-fpw-", dir=os.environ.get("VERIF_SCRATCH") or None) as td:
        src = Path(td) / "w.cxx"
        src.write_text(_FP_WITNESS)
        notes = []
        for cxx_ in ("g++", "clang++"):
            if not shutil.which(cxx_):
                continue
            res = []
            for i, extra in enumerate(([], list(flags))):
                exe = Path(td) / f"w{i}"
                c = subprocess.run([cxx_, "-std=c++17", "-O2", *extra, str(src), "-o", str(exe)], capture_output=True, text=True)
                if c.returncode != 0:
                    res.append(None)
                    notes.append(f"{cxx_} rejects {' '.join(extra)}")
                    continue
                res.append(subprocess.run([str(exe)], capture_output=True, text=True).stdout)
            if None in res:
                continue
            if res[0] != res[1]:
                d = [f"{la.split()[0]}: {la.split()[1]} -> {lb.split()[1]}" for la, lb in zip(res[0].splitlines(), res[1].splitlines()) if la != lb]
                out = (True, f"{cxx_} -O2 vs -O2 {' '.join(flags)}: " + "; ".join(d[:4]))
                break
            notes.append(f"{cxx_}: identical output")
        else:
            out = (False, "; ".join(notes))
    _FP_WITNESS_CACHE[flags] = out
    return out


class ProgramResult:
    def __init__(self, prog):
        self.prog = prog
        self.status = None          # accepted | raised | frontend | illformed | illtyped | unsupported | ref_unsupported | error
        self.detail = ""
        self.verdicts = []          # list[Verdict]
        self.violations = []        # list[dict]: obligation, text, replay dir
        self.spurious = []
        self.inconclusive = []
        self.seconds = 0.0
        self.solver_seconds = 0.0
        self.pkg = None
        self.enc = None
        self.nontrivial = False
        self.features = set()

    def to_sample(self):
        return {"query": self.prog.query[:400], "backend": self.prog.backend, "status": self.status,
                "obligations": {v.name: v.status for v in self.verdicts}}


def bundle_dir(prop, prog, tag):
    h = hashlib.sha1((prog.backend + "|" + prog.query + "|" + tag + ("|twice" if "twice" in prog.tags else "")).encode()).hexdigest()[:12]
    d = REPLAY_ROOT / prop / h
    return d


def write_bundle(d: Path, prog, pkg, extra):
    d.mkdir(parents=True, exist_ok=True)
    (d / "query.txt").write_text(prog.query + "\n")
    (d / "backend.txt").write_text(prog.backend + "\n")
    if pkg is not None:
        pd = d / "package"
        pd.mkdir(exist_ok=True)
        for n, t in pkg.files.items():
            (pd / n).write_text(t)
    (d / "finding.json").write_text(json.dumps(extra, indent=1, default=str))


def replay_model(enc: Encoded, model, workdir: Path, patches=()):
    """Concrete replay of one model. Returns dict(mismatch, text, cpp, ref, encoder_ok, encoder_text)."""
    ce = ConcreteEvent.from_model(enc.event, model)
    res = compile_and_run(enc.pkg, enc.dm, [ce], dict(enc.event.strings), workdir)
    if not res["ok_compile"]:
        return {"mismatch": None, "text": "replay build failed: " + res["compile_log"][:1500], "compile_failed": True, "event": ce.to_json()}
    out = res["outcome"]
    ev0 = out["events"][0] if out["events"] else {"rows": [], "fault": ("crash", "no event")}
    cpp = {"rows": ev0["rows"], "fault": ev0["fault"]}
    q = ast.parse(enc.prog.query, mode="eval").body
    cref = CRef(ce, enc.dm, patches=patches).run(q)
    mm, text = outcome_mismatch(cpp, cref, enc.pkg.treename)
    # encoder self-check: symbolic C++ semantics vs the real compiled code on this event
    pred = predict_cpp(enc, model)
    enc_ok = True
    enc_text = ""
    if (pred["fault"] is None) != (cpp["fault"] is None):
        enc_ok, enc_text = False, f"fault prediction {pred['fault']} vs real {cpp['fault']}"
    elif pred["fault"] is None:
        if len(pred["rows"]) != len(cpp["rows"]) or any(
                pt != ct or set(pc) != set(cc) or any(pc[k] is not None and not values_close(pc[k], cc[k], 1e-6, 1e-6) for k in pc)
                for (pt, pc), (ct, cc) in zip(pred["rows"], cpp["rows"])):
            enc_ok, enc_text = False, f"row prediction {pred['rows']} vs real {cpp['rows']}"
    # symbolic reference vs concrete reference
    if enc.ref is not None:
        pr = predict_ref(enc, model)
        if pr[0] != cref[0] and not (pr[0] in ("unspecified",) or cref[0] in ("unspecified",)):
            enc_ok, enc_text = False, enc_text + f" | reference prediction {pr} vs concrete {cref}"
        elif pr[0] == "rows" and cref[0] == "rows":
            if len(pr[1]) != len(cref[1]) or any(set(a) != set(b) or any(not values_close(a[k], b[k], 1e-6, 1e-6) for k in a) for a, b in zip(pr[1], cref[1])):
                enc_ok, enc_text = False, enc_text + f" | reference prediction {pr} vs concrete {cref}"
    return {"mismatch": mm, "text": text, "cpp": cpp, "ref": cref, "encoder_ok": enc_ok, "encoder_text": enc_text,
            "event": ce.to_json(), "requests": out.get("requests", [])}


def block_model(enc, model):
    "A constraint excluding the model's values of all numeric input applications."
    diffs = []
    for key, apps in enc.event.apps.items():
        for args, t in apps.values():
            if z3.is_bool(t):
                continue
            try:
                diffs.append(t != model.eval(t, model_completion=True))
            except z3.Z3Exception:
                pass
    for e in enc.event.store.values():
        diffs.append(e["n"] != model.eval(e["n"], model_completion=True))
    return Or(*diffs) if diffs else None


def syntax_check(pkg, dm, strings, workdir):
    res = compile_and_run(pkg, dm, [], strings, workdir, syntax_only=True)
    return res["ok_compile"], res["compile_log"]


class Analyzer:
    """Configuration shared by the property drivers."""

    def __init__(self, prop, N=3, timeout_ms=10000, patches=(), want=("rows", "nofault", "loud", "init", "schema", "twin"),
                 member_pre="empty"):
        self.prop = prop
        self.N = N
        self.timeout_ms = timeout_ms
        self.patches = tuple(patches)
        self.want = set(want)
        self.member_pre = member_pre

    def scratch(self, name):
        d = scratch_root() / name
        if d.exists():
            shutil.rmtree(d, ignore_errors=True)
        return d

    def analyse(self, prog: Program, patches=None) -> ProgramResult:
        global EXACT
        EXACT = "exact" in prog.tags
        patches = self.patches if patches is None else tuple(patches)
        r = ProgramResult(prog)
        t0 = time.time()
        try:
            self._analyse(prog, r, patches)
        except Exception as e:  # noqa: BLE001 — a harness defect must never look like a pass
            r.status = r.status or "error"
            r.detail = "".join(traceback.format_exception_only(type(e), e)).strip() + " @ " + traceback.format_exc().splitlines()[-3].strip()
            r.inconclusive.append(("harness", r.detail))
        r.seconds = time.time() - t0
        return r

    def _wellformedness_verdict(self, prog, pkg, r, status, detail):
        """The encoder's front end / C++-subset parser / typer could not give the package a meaning.  Before that is
        reported as 'package not well-formed' the REAL files are handed to clang (-fsyntax-only, against the model header
        generated from the very declarations the query used).  clang rejects -> the status stands (replay = the clang log);
        clang accepts -> the encoder is the one that is wrong about this text: inconclusive, never a violation.
        A package clang cannot be asked about (replay unsupported) keeps the encoder's verdict."""
        wd = self.scratch("wf")
        try:
            ok, log = syntax_check(pkg, prog.datamodel(), {}, wd)
        except ReplayUnsupported:
            ok, log = None, ""
        except Exception as e:  # noqa: BLE001
            ok, log = None, f"syntax check failed to run: {type(e).__name__}: {e}"
        shutil.rmtree(wd, ignore_errors=True)
        if ok:
            r.status, r.detail = "unsupported", f"encoder says {status} ({detail}) but clang accepts the package"
            r.inconclusive.append(("encoder", r.detail))
            return
        r.status = status
        r.detail = detail + ((" || clang: " + " ".join(log.split())[:300]) if log else " || (clang replay not available for this package)")

    def _analyse(self, prog, r, patches):
        if "selfcomp" in self.want:
            return self._analyse_selfcomp(prog, r, patches)
        try:
            pkg = translate(prog.query, prog.backend, fold_neg="fold_neg" in prog.tags, twice="twice" in prog.tags)
        except TranslationRaised as e:
            r.status = "raised"
            r.detail = str(e)
            return
        r.pkg = pkg
        try:
            enc = Encoded(prog, pkg, self.N, patches=patches, member_pre=self.member_pre)
        except (frontend.FrontEndError,) as e:
            self._wellformedness_verdict(prog, pkg, r, "frontend", str(e))
            return
        except cxx.CxxSyntaxError as e:
            self._wellformedness_verdict(prog, pkg, r, "illformed", str(e))
            return
        except IllTyped as e:
            self._wellformedness_verdict(prog, pkg, r, "illtyped", str(e))
            return
        except Unsupported as e:
            r.status, r.detail = "unsupported", str(e)
            if "statement outside subset" in str(e):
                # class (b) of DESIGN 2.1: is it C++ at all?  Ask the real front end (replay only).
                wd = self.scratch("syntax")
                try:
                    ok, log = syntax_check(pkg, prog.datamodel(), {}, wd)
                except ReplayUnsupported:
                    ok, log = True, ""
                shutil.rmtree(wd, ignore_errors=True)
                if not ok:
                    r.status = "illformed"
                    r.detail = str(e) + " || clang: " + " ".join(log.split())[:300]
                    return
            r.inconclusive.append(("encoder", str(e)))
            return
        except RefUnsupported as e:
            r.status, r.detail = "ref_unsupported", str(e)
            r.inconclusive.append(("reference", str(e)))
            return
        r.enc = enc
        r.status = "accepted"
        r.features = set(enc.ref.features)
        base = enc.base()
        defined = enc.ref_defined()
        specified = enc.ref_specified()
        nofault = Not(enc.cpp_fault())
        V = r.verdicts
        if "twin" in self.want:
            # reachability twin: some event fills a row (must be SAT)
            rows = enc.cpp_rows()
            tw, _, dt, _ = check_sat(base + [defined, specified], Or(*[g for g, _ in rows]) if rows else FALSE, self.timeout_ms)
            V.append(Verdict("twin_row_reachable", "holds" if tw == "sat" else ("inconclusive" if tw == "unknown" else "vacuous"), seconds=dt))
            r.nontrivial = tw == "sat" and any(k[0] == "for" for k in _walk(enc.query_ast))
            partial = [g for g, k in enc.ref.undef if k in ("first_empty", "index", "nullderef") and not z3.is_false(g)]
            if partial:
                tw2, _, dt2, _ = check_sat(base, Or(*partial), self.timeout_ms)
                V.append(Verdict("twin_undefined_reachable", "holds" if tw2 == "sat" else ("inconclusive" if tw2 == "unknown" else "unreachable"), seconds=dt2))
        if "rows" in self.want:
            v = discharge("rows", base + [defined, specified, nofault], Not(enc.rows_equal()), self.timeout_ms)
            v.query = (base + [defined, specified, nofault], Not(enc.rows_equal()))
            V.append(v)
        if "nofault" in self.want:
            V.append(discharge("nofault_when_defined", base + [defined], enc.cpp_fault(), self.timeout_ms))
            if len(enc.event.store) >= 2:
                # laziness of retrieval: a collection that is absent from the event makes the job fail only if the query
                # evaluates it on this event (presence of every store key symbolic)
                v = discharge("nofault_when_absent_collection_not_evaluated", enc.base(all_present=False) + [defined], enc.cpp_fault(), self.timeout_ms)
                V.append(v)
        if "loud" in self.want:
            part = [g for g, k in enc.ref.undef if k in ("first_empty", "index")]
            other = [g for g, k in enc.ref.undef if k not in ("first_empty", "index")]
            if part:
                V.append(discharge("loud_when_undefined", base + [Or(*part), Not(Or(*other)) if other else TRUE],
                                   Not(enc.cpp_fault(LOUD)), self.timeout_ms))
        if "init" in self.want:
            by_name = {}
            for cond, name in enc.exec.uninit_reads:
                by_name.setdefault(name, []).append(cond)
            for name, conds in by_name.items():
                V.append(discharge(f"init:{name}", base, Or(*conds), self.timeout_ms))
        if "schema" in self.want:
            self._schema(enc, r)
        if "rows" in self.want:
            self._all_events(enc.pkg, r)
            self._fp_build_flags(enc.pkg, r)
        if "complete" in self.want:
            self._complete(enc, r)
        if "store" in self.want:
            self._store(enc, r)
        r.solver_seconds = sum(v.seconds for v in V)
        # replay counterexamples
        for v in V:
            if v.status == "cex":
                self._confirm(prog, enc, v, r, patches)
            elif v.status == "inconclusive":
                r.inconclusive.append((v.name, v.detail))
            elif v.status == "vacuous":
                r.inconclusive.append((v.name, "reachability twin not satisfiable: obligations are vacuous"))

    def _analyse_selfcomp(self, prog, r, patches):
        """C05: execute the per-event code twice on the SAME symbolic event from two independent
        pre-states (scalar members and uninitialised locals arbitrary, vector members empty = Inv)
        and require equal rows/faults and Inv restored."""
        from .model import Event
        from .equiv import row_eq
        try:
            pkg = translate(prog.query, prog.backend, fold_neg="fold_neg" in prog.tags, twice="twice" in prog.tags)
        except TranslationRaised as e:
            r.status, r.detail = "raised", str(e)
            return
        r.pkg = pkg
        dm = prog.datamodel()
        ev = Event(dm, self.N)
        try:
            A = Encoded(prog, pkg, self.N, patches=patches, tag="A", event=ev, skip_ref=True)
            B = Encoded(prog, pkg, self.N, patches=patches, tag="B", event=ev, skip_ref=True)
        except (frontend.FrontEndError, cxx.CxxSyntaxError) as e:
            self._wellformedness_verdict(prog, pkg, r, "illformed", str(e))
            return
        except IllTyped as e:
            self._wellformedness_verdict(prog, pkg, r, "illtyped", str(e))
            return
        except Unsupported as e:
            r.status, r.detail = "unsupported", str(e)
            r.inconclusive.append(("encoder", str(e)))
            return
        r.enc = A
        r.status = "accepted"
        base = A.base() + [c for c in B.base()]
        V = r.verdicts
        self._all_events(pkg, r)
        ra, rb = A.exec.rows, B.exec.rows
        fa, fb = A.exec.faults, B.exec.faults
        if len(ra) != len(rb) or len(fa) != len(fb):
            r.inconclusive.append(("selfcomp", "the two executions have different shapes"))
            return
        conj = []
        for (ga, ta, ca), (gb, tb, cb) in zip(ra, rb):
            conj.append(ga == gb)
            conj.append(z3.Implies(ga, row_eq(ca, cb)))
        for (ga, ka, _), (gb, kb, _) in zip(fa, fb):
            conj.append(ga == gb)
        tw, _, dt, _ = check_sat(base, Or(*[g for g, _, _ in ra]) if ra else FALSE, self.timeout_ms)
        V.append(Verdict("twin_row_reachable", "holds" if tw == "sat" else ("inconclusive" if tw == "unknown" else "vacuous"), seconds=dt))
        r.nontrivial = tw == "sat" and any(k[0] == "for" for k in _walk(A.query_ast))
        v = discharge("rows_independent_of_prestate", base, Not(z3.And(*conj)) if conj else FALSE, self.timeout_ms)
        v.selfcomp = (A, B)
        V.append(v)
        # Inv restored: every vector member is empty again at the end of a non-faulting event
        inv = []
        from .symexec import count as _count
        for name in A.exec.member_names:
            cell = A.exec.scopes[0][name]
            if isinstance(cell.value, CollV):
                inv.append(_count(cell.value.slots) == 0)
        if inv:
            # at the end of every event that did not fault - including one the code left early with `return`
            v2 = discharge("invariant_restored", base + [Or(A.exec.alive, A.exec.returned)], Not(z3.And(*inv)), self.timeout_ms)
            v2.selfcomp = (A, B)
            V.append(v2)
            if len(ev.store) >= 2:
                # the same with the presence of every collection symbolic: an event that lacks a product either ends the job
                # (fault) or leaves no entries behind for the next one
                base_np = A.base(all_present=False) + [c for c in B.base(all_present=False)]
                v3 = discharge("invariant_restored_with_absent_collections", base_np + [Or(A.exec.alive, A.exec.returned)], Not(z3.And(*inv)), self.timeout_ms)
                v3.selfcomp = (A, B)
                V.append(v3)
        r.solver_seconds = sum(x.seconds for x in V)
        for v in V:
            if v.status == "cex" and v.name in ("all_events", "fp_build_flags"):
                d = bundle_dir(self.prop, prog, v.name)
                write_bundle(d, prog, pkg, {"obligation": v.name, "text": v.detail, "kind": "front-end fact (no event needed)"})
                r.violations.append({"obligation": v.name, "text": v.detail, "replay": str(d)})
            elif v.status == "cex":
                self._confirm_selfcomp(prog, A, v, r)
            elif v.status in ("inconclusive", "vacuous"):
                r.inconclusive.append((v.name, v.detail or v.status))

    def _confirm_selfcomp(self, prog, enc, v, r):
        """Replay: run the real package on [E, E0, E] (E0 = E with every collection empty) and on [E];
        state carried across events shows as different rows for the same event."""
        import copy
        ce = ConcreteEvent.from_model(enc.event, v.model)
        ce0 = copy.deepcopy(ce)
        for k in ce0.store:
            ce0.store[k]["n"] = 0
        # a second "other event": every collection full, every value different from E's defaults (so that whatever a member
        # keeps from it is visible when E - possibly an empty event - is processed again)
        ce1 = copy.deepcopy(ce)
        for k in ce1.store:
            ce1.store[k]["n"] = ce1.N
            ce1.store[k]["present"] = True
        from fractions import Fraction as _Fr
        for name, (entries, els, rng) in list(ce1.tables.items()):
            if rng == "Bool":
                ce1.tables[name] = ({}, True if "?null" not in name else False, rng)
            elif "#len" in name:
                ce1.tables[name] = ({}, min(ce1.N, 2), rng)
            elif rng == "Int":
                ce1.tables[name] = ({}, 7, rng)
            else:
                ce1.tables[name] = ({}, _Fr(29, 4), rng)
        wd = self.scratch("replay")
        # concrete histories (E = the model's event, E0 = E with every collection empty, E1 = the full event).  A faulting event
        # ends the job, so several orders are tried; in each, the rows of every occurrence of the same event are compared
        # (what an event that writes nothing leaves behind shows in the rows of the NEXT event that does write).
        histories = [("E1 E E0 E E E1 E", [ce1, ce, ce0, ce, ce, ce1, ce], "1034016".replace("0", "0")),
                     ("E E1 E E1", [ce, ce1, ce, ce1], None),
                     ("E1 E E1 E", [ce1, ce, ce1, ce], None)]
        labels = {"E1 E E0 E E E1 E": ["E1", "E", "E0", "E", "E", "E1", "E"], "E E1 E E1": ["E", "E1", "E", "E1"], "E1 E E1 E": ["E1", "E", "E1", "E"]}
        found = None
        for hname, hist, _ in histories:
            try:
                res = compile_and_run(enc.pkg, enc.dm, hist, dict(enc.event.strings), wd)
            except ReplayUnsupported as e:
                r.inconclusive.append((v.name, f"cannot replay: {e}"))
                v.status = "inconclusive"
                return
            if not res["ok_compile"]:
                r.inconclusive.append((v.name, "replay build failed: " + res["compile_log"][:500]))
                v.status = "inconclusive"
                shutil.rmtree(wd, ignore_errors=True)
                return
            evs = res["outcome"]["events"]
            rows = [e["rows"] for e in evs]
            by = {}
            for lab, rw in zip(labels[hname], rows):
                by.setdefault(lab, []).append(rw)
            for lab, rws in by.items():
                if len(rws) >= 2 and any(x != rws[0] for x in rws[1:]):
                    found = (hname, lab, rws)
                    break
            if found:
                break
        if found:
            d = bundle_dir(self.prop, prog, v.name)
            text = f"rows for the same event differ with history: first={found[2][0]} after other events={found[2][1:]} (history {found[0]}, event {found[1]})"
            write_bundle(d, prog, enc.pkg, {"obligation": v.name, "text": text, "event": ce.to_json()})
            shutil.copy(wd / "driver.cxx", d / "driver.cxx")
            shutil.copytree(wd / "inc", d / "inc", dirs_exist_ok=True)
            r.violations.append({"obligation": v.name, "text": text, "replay": str(d), "event": ce.to_json()})
            v.detail = text
        else:
            v.status = "spurious"
            v.detail = "pre-state of the inductive step not reproduced by the concrete histories [E1,E,E0,E,E,E1,E], [E,E1,E,E1], [E1,E,E1,E]"
            r.spurious.append((v.name, v.detail))
            r.inconclusive.append((v.name, v.detail + " (the invariant may be too weak for this program)"))
        shutil.rmtree(wd, ignore_errors=True)

    def _store(self, enc, r):
        """C06: which (container type, bank) pairs are requested, with which idiom, and what happens when
        a collection is absent (present/status symbolic per store key)."""
        V = r.verdicts
        want_keys = set(enc.ref.requests)
        got = [(ct, bank, idiom) for _, ct, bank, idiom in enc.exec.requests]
        got_keys = {(ct, bank) for ct, bank, _ in got}
        idiom = {"atlas": "retrieve", "cms_aod": "getByLabel", "cms_miniaod": "getByToken"}[enc.pkg.backend]
        problems = []
        if got_keys != want_keys:
            problems.append(f"store requests {sorted(got_keys)} != collections the query names {sorted(want_keys)}")
        bad_idiom = sorted({i for _, _, i in got if i != idiom})
        if bad_idiom:
            problems.append(f"retrieval idiom {bad_idiom} instead of {idiom}")
        if enc.pkg.backend == "cms_miniaod":
            # one token per use, declared once, initialised once with that bank's tag
            tokens = [n for t, n in enc.class_decl if t.startswith("edm::EDGetTokenT<")]
            assigned = [st[1][1] for st in _walk(enc.book_ast) if st[0] == "assign" and st[1][0] == "id" and st[1][1] in tokens]
            if sorted(assigned) != sorted(tokens):
                problems.append(f"tokens declared {tokens} but initialised {assigned}")
            sites = sum(1 for st in _walk(enc.query_ast) if st[0] == "mem" and len(st) > 3 and st[3] == "getByToken")
            if len(tokens) != sites:
                problems.append(f"{sites} getByToken call sites but {len(tokens)} tokens")
        if enc.pkg.backend == "atlas":
            cm = enc.pkg.files.get("package_CMakeLists.txt", "")
            for ct, bank in want_keys:
                for spec in enc.dm.colls.values():
                    if spec.container == ct:
                        for lib in spec.libs:
                            if lib not in cm:
                                problems.append(f"link library {lib} for {ct} missing from package_CMakeLists.txt")
        for ct, bank in want_keys:
            for spec in enc.dm.colls.values():
                if spec.container == ct:
                    for h in spec.headers:
                        if h not in enc.includes:
                            problems.append(f"header {h} for {ct} not included")
        v = Verdict("store_requests", "holds" if not problems else "cex", "; ".join(problems))
        V.append(v)
        # absent collections: symbolic `present` per key
        base_np = enc.base(all_present=False)
        V.append(discharge("absent_collection_never_dereferenced", base_np, enc.cpp_fault(SILENT), self.timeout_ms))
        missing = [g for g, k in enc.ref.undef if k == "missing_collection" and not z3.is_false(g)]
        if missing:
            v2 = discharge("absent_collection_fails_loudly", base_np + [Or(*missing)], Not(enc.cpp_fault(LOUD)), self.timeout_ms)
            V.append(v2)

    def _all_events(self, pkg, r):
        """Front-end fact behind 'for every input event' / 'split across jobs gives the same rows': the rendered job
        configuration does not bound the number of events the framework hands to the per-event code."""
        import re as _re
        problems = []
        for name, text in pkg.files.items():
            if name.endswith("_cfg.py"):
                for m in _re.finditer(r"maxEvents\s*=.*?int32\(\s*(-?\d+)\s*\)", text):
                    if int(m.group(1)) >= 0:
                        problems.append(f"{name}: process.maxEvents limits the job to {m.group(1)} events")
            if name.endswith("_eljob.py") or name.endswith("JobOptions.py"):
                for m in _re.finditer(r"(optMaxEvents|EvtMax|setMaxEvents)\W+\s*(-?\d+)", text):
                    if int(m.group(2)) >= 0:
                        problems.append(f"{name}: {m.group(1)} limits the job to {m.group(2)} events")
        v = Verdict("all_events", "holds" if not problems else "cex", "; ".join(problems))
        v.frontend_fact = True
        r.verdicts.append(v)

    def _fp_build_flags(self, pkg, r):
        """Guard of an encoding assumption: engine A gives the emitted arithmetic and <cmath> calls their IEEE / ISO C++ meaning.
        That meaning is the compiler's only while the build files the package ships do not switch on value-changing
        floating-point optimisation (-Ofast, -ffast-math and its members).  Such a flag is reported only after a witness
        program compiled with and without the flags (clang and g++, as the replay does) prints different numbers."""
        flags = []
        for name, text in pkg.files.items():
            if name.endswith(("CMakeLists.txt", "BuildFile.xml", ".sh", ".cmake")):
                for m in FP_FLAG_RE.finditer(text):
                    flags.append((name, m.group(1)))
        if not flags:
            v = Verdict("fp_build_flags", "holds", "")
        else:
            fl = tuple(sorted({f for _, f in flags}))
            differs, log = fp_flags_witness(fl)
            where = ", ".join(f"{n}: {f}" for n, f in flags)
            if differs:
                v = Verdict("fp_build_flags", "cex", f"the package is built with {where}: under these flags the compiler no longer evaluates the "
                            f"emitted arithmetic / std:: math calls with their IEEE meaning ({log})")
            else:
                v = Verdict("fp_build_flags", "inconclusive", f"build flags {where} present; witness program shows no difference ({log})")
        v.frontend_fact = True
        r.verdicts.append(v)

    def _complete(self, enc, r):
        "C02 front-end facts (decided by the encoder front end, not by the solver)."
        import re as _re
        pkg = enc.pkg
        problems = []
        for f in pkg.all_filenames:
            if f not in pkg.files:
                problems.append(f"file {f} named in the returned info does not exist")
        if pkg.main_script not in pkg.files:
            problems.append(f"entry script {pkg.main_script} missing")
        elif not (pkg.modes.get(pkg.main_script, 0) & 0o111):
            problems.append(f"entry script {pkg.main_script} is not executable (mode {oct(pkg.modes.get(pkg.main_script, 0))})")
        for f in pkg.all_filenames:
            if f in pkg.files and f not in enc.slots:
                try:
                    frontend.extract_slots(pkg.backend, f, pkg.files[f])
                except frontend.FrontEndError as e:
                    problems.append(str(e))
        gen_names = [n for n in enc.exec.shadows if _re.search(r"\d+$", n)]
        if gen_names:
            problems.append(f"generated identifier(s) declared more than once (shadowing): {sorted(set(gen_names))}")
        members = [n for _, n in enc.class_decl]
        if len(set(members)) != len(members):
            problems.append("class member declared twice")
        # headers/libraries the used containers need (frozen oracle)
        for g, ctype, bank, idiom in enc.exec.requests:
            for spec in enc.dm.colls.values():
                if spec.container == ctype:
                    for h in spec.headers:
                        if h not in enc.includes:
                            problems.append(f"container {ctype} used but header {h} is not included")
        v = Verdict("complete", "holds" if not problems else "cex", "; ".join(problems))
        r.verdicts.append(v)

    def _schema(self, enc, r):
        got = schema_of_cpp(enc)
        want = enc.ref_schema or []
        ok = True
        why = ""
        if [g[0] for g in got] != [w[0] for w in want]:
            ok, why = False, f"column names {[g[0] for g in got]} != query's {[w[0] for w in want]}"
        else:
            for g, w in zip(got, want):
                if g[1] != w[1]:
                    ok, why = False, f"column {g[0]}: depth {g[1]} != {w[1]}"
                    break
                if isinstance(w[2], str) and w[2].startswith("tree:"):
                    if g[2] != w[2][5:]:
                        ok, why = False, f"column {g[0]}: element type {g[2]} but the method's declared tree_type is {w[2][5:]}"
                        break
                elif w[2] == "enum" and isinstance(g[2], str) and g[2].replace("::", ".") in enc.dm.enums:
                    pass          # a column of the declared enum type
                elif g[2] not in KIND_OK.get(w[2], (w[2],)):
                    ok, why = False, f"column {g[0]}: element type {g[2]} but the expression is {w[2]}"
                    break
            members = [g[3] for g in got]
            if len(set(members)) != len(members):
                ok, why = False, f"two branches bound to one member: {members}"
        if enc.ref.tree_name is not None and enc.ref.tree_name != enc.pkg.treename:
            ok, why = False, f"descriptor tree name {enc.pkg.treename!r} != requested {enc.ref.tree_name!r}"
        if enc.pkg.treename not in enc.exec.trees:
            ok, why = False, f"descriptor tree {enc.pkg.treename!r} is never booked (booked: {list(enc.exec.trees)})"
        if "descriptor" in self.want:
            import re as _re
            runner = enc.pkg.files.get(enc.pkg.main_script, "")
            fn = enc.pkg.filename
            delivered = set(_re.findall(r"[/=\"]([\w.-]+\.root)\b", runner))
            if not fn or fn not in delivered:
                ok, why = False, f"descriptor file name {fn!r} is not a file the runner script delivers ({sorted(delivered)})"
        v = Verdict("schema", "holds" if ok else "cex", why)
        v.frontend_fact = True
        r.verdicts.append(v)

    def _confirm(self, prog, enc, v, r, patches):
        if v.name in ("schema", "complete", "store_requests", "all_events", "fp_build_flags"):
            d = bundle_dir(self.prop, prog, v.name)
            write_bundle(d, prog, enc.pkg, {"obligation": v.name, "text": v.detail, "kind": "front-end fact (no event needed)"})
            r.violations.append({"obligation": v.name, "text": v.detail, "replay": str(d)})
            return
        wd = self.scratch("replay")
        try:
            rp = replay_model(enc, v.model, wd, patches)
        except ReplayUnsupported as e:
            r.inconclusive.append((v.name, f"counterexample could not be replayed: {e}"))
            v.status = "inconclusive"
            return
        finally:
            pass
        if rp.get("compile_failed"):
            r.inconclusive.append((v.name, rp["text"]))
            v.status = "inconclusive"
            shutil.rmtree(wd, ignore_errors=True)
            return
        abstracted = bool(enc.ctx.rf_terms) or any(str(k[0]).startswith("fn:") for k in enc.event.ufs)
        if not rp["encoder_ok"] and abstracted and rp["mismatch"] is True and "fault prediction" not in rp["encoder_text"]:
            # the model's values of ABSTRACTED functions (sqrt, pow, float rounding) are not the machine's, but on this concrete
            # event the real compiled package and the concrete reference evaluation disagree: that stands on its own
            rp["encoder_ok"] = True
            rp["text"] += " (found through a model whose abstracted function values differ from the machine's; the replay decides)"
        if not rp["encoder_ok"] and abstracted and "fault prediction" not in rp["encoder_text"] and getattr(v, "tries", 0) < 8 \
                and getattr(v, "query", None) is not None:
            # binary32 rounding is an uninterpreted function constrained by relative-error axioms (a model may round a float
            # sum differently from the machine, visible after cancellation) and library functions without an exact model are
            # uninterpreted (a model may say pow(2, 0.5) = 7).  That is the stated abstraction, not an encoder defect: the model
            # is spurious - block it and ask again.
            shutil.rmtree(wd, ignore_errors=True)
            blk = block_model(enc, v.model)
            if blk is not None:
                prem, neg = v.query
                prem = prem + [blk]
                v2 = discharge(v.name, prem, neg, self.timeout_ms)
                v2.tries = getattr(v, "tries", 0) + 1
                v2.query = (prem, neg)
                r.spurious.append((v.name, "float32 abstraction: " + rp["encoder_text"][:300]))
                if v2.status == "cex":
                    v.model, v.tries, v.query = v2.model, v2.tries, v2.query
                    return self._confirm(prog, enc, v, r, patches)
                v.status = "inconclusive"
                v.detail = "only models that differ from machine float32 rounding (blocked): " + rp["encoder_text"][:300]
                r.inconclusive.append((v.name, v.detail))
                return
        if not rp["encoder_ok"] and abstracted and "fault prediction" not in rp["encoder_text"]:
            v.status = "inconclusive"
            v.detail = "float32 / library-function abstraction: solver models differ from the machine: " + rp["encoder_text"][:300]
            r.inconclusive.append((v.name, v.detail))
            shutil.rmtree(wd, ignore_errors=True)
            return
        if not rp["encoder_ok"]:
            v.status = "harness_mismatch"
            v.detail = rp["encoder_text"]
            r.inconclusive.append((v.name, "encoder disagrees with the compiled code: " + rp["encoder_text"]))
            r.harness_error = rp["encoder_text"]
            shutil.rmtree(wd, ignore_errors=True)
            return
        reproduced = rp["mismatch"] is True
        if v.name == "nofault_when_absent_collection_not_evaluated":
            pass
        if v.name.startswith("absent_"):
            f = rp["cpp"]["fault"]
            reproduced = f is None or f[0] not in LOUD
            rp["text"] = f"a collection is absent from the event but the job {'did not fail' if f is None else 'failed with ' + str(f)} (store: {[(k['type'], k['bank'], k['present']) for k in rp['event']['store']]})"
        if v.name.startswith("init:"):
            # an uninitialised read is confirmed by the model + encoder agreement; values are garbage
            reproduced = True
            rp["text"] = f"variable {v.name[5:]} is read before it is assigned on this event"
        if reproduced:
            d = bundle_dir(self.prop, prog, v.name)
            write_bundle(d, prog, enc.pkg, {"obligation": v.name, "text": rp["text"], "event": rp["event"],
                                            "job": rp["cpp"], "query_denotes": rp["ref"]})
            shutil.copy(wd / "driver.cxx", d / "driver.cxx")
            shutil.copytree(wd / "inc", d / "inc", dirs_exist_ok=True)
            r.violations.append({"obligation": v.name, "text": rp["text"], "replay": str(d), "event": rp["event"]})
            v.detail = rp["text"]
        else:
            shutil.rmtree(wd, ignore_errors=True)
            tries = getattr(v, "tries", 0)
            if tries < 3 and getattr(v, "query", None) is not None:
                blk = block_model(enc, v.model)
                if blk is not None:
                    prem, neg = v.query
                    prem = prem + [blk]
                    v2 = discharge(v.name, prem, neg, self.timeout_ms)
                    v2.tries = tries + 1
                    v2.query = (prem, neg)
                    r.spurious.append((v.name, rp["text"]))
                    if v2.status == "cex":
                        v.model, v.tries, v.query = v2.model, v2.tries, v2.query
                        return self._confirm(prog, enc, v, r, patches)
                    if v2.status == "holds":
                        v.status = "inconclusive"
                        v.detail = "only spurious models (blocked): " + rp["text"]
                        r.inconclusive.append((v.name, v.detail))
                        return
            v.status = "spurious"
            v.detail = rp["text"]
            r.spurious.append((v.name, rp["text"]))
            r.inconclusive.append((v.name, "solver model did not reproduce on the real compiled package: " + rp["text"][:200]))
            return
        shutil.rmtree(wd, ignore_errors=True)


def _walk(node):
    if isinstance(node, tuple):
        yield node
        for x in node:
            if isinstance(x, (tuple, list)):
                for y in (x if isinstance(x, list) else [x]):
                    yield from _walk(y)
