"""Predicated symbolic execution of the emitted C++ subset over a symbolic event (z3)."""
import re

import z3

from . import mathfn
from .model import (CollV, Ctx, EnumV, Num, ObjV, StrV, TColl, TEnum, THandle, TNum, TObj, TStr,
                    TToken, TokenV, TVoid, Uninit, cdiv, cmod, conv, real, tobool, toint, KIND_RANK)


from .model import IllTyped  # noqa: E402,F401  (defined next to the type parser, which can raise it too)


class Unsupported(Exception):
    "Construct outside the encoder's subset -> program is inconclusive, never passed."


TRUE = z3.BoolVal(True)
FALSE = z3.BoolVal(False)


def And(*xs):
    xs = [x for x in xs if not z3.is_true(x)]
    if any(z3.is_false(x) for x in xs):
        return FALSE
    if not xs:
        return TRUE
    if len(xs) == 1:
        return xs[0]
    return z3.And(*xs)


def Not(x):
    if z3.is_true(x):
        return FALSE
    if z3.is_false(x):
        return TRUE
    return z3.Not(x)


def Or(*xs):
    xs = [x for x in xs if not z3.is_false(x)]
    if any(z3.is_true(x) for x in xs):
        return TRUE
    if not xs:
        return FALSE
    if len(xs) == 1:
        return xs[0]
    return z3.Or(*xs)


def count(slots):
    if not slots:
        return z3.IntVal(0)
    return z3.Sum([z3.If(g, 1, 0) for g, _ in slots])


def merge(c, a, b):
    "ite over values"
    if z3.is_true(c):
        return a
    if z3.is_false(c):
        return b
    if isinstance(a, Num) and isinstance(b, Num):
        if a.kind != b.kind:
            k = max(a.kind, b.kind, key=lambda x: KIND_RANK[x])
            a = Num(k, real(a) if k in ("double", "float") else toint(a))
            b = Num(k, real(b) if k in ("double", "float") else toint(b))
        return Num(a.kind, z3.If(c, a.t, b.t))
    if isinstance(a, ObjV) and isinstance(b, ObjV):
        return ObjV(a.cls, a.p, z3.If(c, a.oid, b.oid), z3.If(c, a.null, b.null), a.ref)
    if isinstance(a, CollV) and isinstance(b, CollV):
        slots = [(And(c, g), v) for g, v in a.slots] + [(And(Not(c), g), v) for g, v in b.slots]
        return CollV(a.tname, a.elem_t, a.p, slots, z3.If(c, a.valid, b.valid), a.handle, a.key)
    if isinstance(b, Uninit):
        return a
    if isinstance(a, Uninit):
        return b
    if isinstance(a, StrV) and isinstance(b, StrV) and a.s == b.s:
        return a
    raise Unsupported(f"cannot merge {type(a).__name__} with {type(b).__name__}")


def select_kth(slots, k):
    """k-th present element of a guarded list (k: Int term).  Returns (value, exists)."""
    res = None
    pref = z3.IntVal(0)
    exists = FALSE
    cands = []
    for g, v in slots:
        here = And(g, pref == k)
        cands.append((here, v))
        exists = Or(exists, here)
        pref = pref + z3.If(g, 1, 0)
    for here, v in reversed(cands):
        res = v if res is None else merge(here, v, res)
    return res, exists


class Cell:
    __slots__ = ("value", "ctype", "init", "name", "is_member")

    def __init__(self, name, ctype, value, init, is_member=False):
        self.name = name
        self.ctype = ctype
        self.value = value
        self.init = init
        self.is_member = is_member


class StatusV:
    def __init__(self, ok):
        self.ok = ok


class IterV:
    def __init__(self, cell, which):
        self.cell = cell
        self.which = which


class TreeV:
    def __init__(self, name):
        self.name = name


class Exec:
    def __init__(self, event, dm, members, ctx=None, tag="", member_pre="empty", range_cap=None, patches=()):
        """members: [(type string, name)] from the class_decl slot (+ static members)."""
        self.ev = event
        self.dm = dm
        self.ctx = ctx or Ctx()
        self.tag = tag
        self.scopes = [dict()]
        self.alive = TRUE
        self.returned = FALSE       # paths on which the per-event code returned early (no fault)
        self.rows = []            # (guard, treename, {branch: value})
        self.faults = []          # (guard, kind, info)
        self.uninit_reads = []    # (guard, name)
        self.requests = []        # (guard, ctype, bank, idiom)
        self.assumes = []         # premises (e.g. non-zero divisors, range within cap)
        self.trees = {}           # tree name -> [(branch, member name)]
        self.tree_ptr = {}        # variable name (e.g. myTree) -> tree name
        self.fresh = 0
        self.member_names = []
        self.member_pre = member_pre
        self.range_cap = range_cap if range_cap is not None else event.N + 1
        self.pre_slots = {}
        self.events_log = []
        self.patches = set(patches)
        self.shadows = []
        for ty, name in members:
            self.declare_member(ty, name)

    # ------------------------------------------------------------ declarations
    def declare_member(self, ty, name):
        if name in self.scopes[0]:
            raise IllTyped(f"class member '{name}' declared twice")
        t = self.dm.parse_cpp_type(ty)
        self.member_names.append(name)
        if isinstance(t, TNum):
            srt = {"double": z3.Real, "float": z3.Real, "int": z3.Int, "bool": z3.Bool}[t.kind]
            v = Num(t.kind, srt(f"pre{self.tag}_{name}"))
            self.scopes[0][name] = Cell(name, t, v, TRUE, True)
        elif isinstance(t, TColl) and t.p == 0:
            slots = []
            if self.member_pre == "arbitrary":
                for k in range(2):
                    g = z3.Bool(f"pre{self.tag}_{name}_has{k}")
                    slots.append((g, self.default_value(t.elem, f"pre{self.tag}_{name}_{k}")))
            self.pre_slots[name] = list(slots)
            self.scopes[0][name] = Cell(name, t, CollV(t.name, t.elem, 0, slots), TRUE, True)
        elif isinstance(t, TToken):
            self.scopes[0][name] = Cell(name, t, TokenV(t.of, None), FALSE, True)
        else:
            self.scopes[0][name] = Cell(name, t, Uninit(), FALSE, True)

    def default_value(self, t, nm):
        if isinstance(t, TNum):
            srt = {"double": z3.Real, "float": z3.Real, "int": z3.Int, "bool": z3.Bool}[t.kind]
            return Num(t.kind, srt(nm))
        if isinstance(t, TColl):
            return CollV(t.name, t.elem, t.p, [])
        if isinstance(t, TObj):
            return ObjV(t.cls, t.p, z3.Int(nm))
        raise Unsupported(f"default value of {t}")

    def lookup(self, n):
        for sc in reversed(self.scopes):
            if n in sc:
                return sc[n]
        raise IllTyped(f"identifier '{n}' is not declared in any enclosing scope")

    def fault(self, g, kind, info=""):
        cond = And(g, self.alive)
        if z3.is_false(cond):
            return
        self.faults.append((cond, kind, info))
        self.alive = And(self.alive, Not(g))

    # ------------------------------------------------------------ expressions
    def read_cell(self, cell, g):
        if not z3.is_true(cell.init):
            c = And(g, self.alive, Not(cell.init))
            if not z3.is_false(c):
                self.uninit_reads.append((c, cell.name))
        v = cell.value
        if isinstance(v, Uninit):
            # never assigned on any path: give it an arbitrary value of its type
            self.fresh += 1
            t = cell.ctype
            if isinstance(t, TColl):
                return CollV(t.name, t.elem, t.p, [], valid=z3.Bool(f"garbvalid_{cell.name}_{self.fresh}"))
            if isinstance(t, THandle):
                return CollV(t.inner.name, t.inner.elem, 0, [], valid=FALSE, handle=True)
            if isinstance(t, TObj):
                return ObjV(t.cls, t.p, z3.Int(f"garb_{cell.name}_{self.fresh}"))
            raise Unsupported(f"read of uninitialised {cell.name}: {t}")
        return v

    def deref(self, v, g, what="*"):
        if isinstance(v, ObjV):
            if v.p < 1:
                if v.sd < self.dm.smart_depth(v.cls):
                    return ObjV(v.cls, 0, v.oid, FALSE, False, v.sd + 1)
                raise IllTyped(f"dereference of non-pointer value of type {v.cls}")
            self.fault(And(g, v.null), "nullderef", f"{what} on null {v.cls}*")
            return ObjV(v.cls, v.p - 1, v.oid, FALSE if v.p == 1 else v.null, False, v.sd)
        if isinstance(v, CollV):
            if v.handle:
                self.fault(And(g, Not(v.valid)), "throw", "dereference of invalid edm::Handle")
                return CollV(v.tname, v.elem_t, 0, v.slots, TRUE, False, v.key)
            if v.p < 1:
                raise IllTyped(f"dereference of non-pointer container {v.tname}")
            self.fault(And(g, Not(v.valid)), "nullderef", f"{what} on null {v.tname}*")
            return CollV(v.tname, v.elem_t, v.p - 1, v.slots, TRUE if v.p == 1 else v.valid, False, v.key)
        if isinstance(v, IterV):
            return v
        raise IllTyped(f"dereference of a {type(v).__name__}")

    def member_target(self, op, obj, g, name):
        """Resolve obj.name / obj->name : returns the (deref'd) receiver value."""
        if isinstance(obj, (ObjV, CollV)):
            if isinstance(obj, ObjV) and obj.ref and obj.p == 1:
                # edm::Ref-like: '.' reaches the Ref's own methods, '->' the pointee
                if op == "->":
                    return self.deref(obj, g, "->")
                if name in ("isNonnull", "isNull", "isAvailable"):
                    return obj
                raise IllTyped(f"'.{name}' on edm::Ref to {obj.cls}: pointee members need '->'")
            if isinstance(obj, CollV) and obj.handle:
                if op == "->":
                    return self.deref(obj, g, "->")
                return obj
            p = obj.p
            if op == "->" and p == 0 and isinstance(obj, ObjV) and obj.sd < self.dm.smart_depth(obj.cls):
                return self.deref(obj, g, "->")
            if op == "->":
                if p != 1:
                    raise IllTyped(f"'->{name}' applied to {'value' if p == 0 else 'pointer-to-pointer'} of type {obj.cls if isinstance(obj, ObjV) else obj.tname}{'*' * p}")
                return self.deref(obj, g, "->")
            if p != 0:
                raise IllTyped(f"'.{name}' applied to pointer of type {obj.cls if isinstance(obj, ObjV) else obj.tname}{'*' * p}")
            return obj
        if isinstance(obj, Num):
            raise IllTyped(f"member access '{op}{name}' on arithmetic value of kind {obj.kind}")
        return obj

    def ev_args(self, args, g):
        return [self.ev_expr(a, g) for a in args]

    def ev_expr(self, e, g):
        k = e[0]
        if k == "num":
            if e[1] == "bool":
                return Num("bool", z3.BoolVal(e[2] == "true"))
            if e[1] == "int":
                return Num("int", z3.IntVal(int(e[2])))
            return Num(e[1], z3.RealVal(str(__import__("fractions").Fraction(e[2].rstrip("fFlL")))))   # exact decimal value of the literal text
        if k == "str":
            return StrV(cpp_unescape(e[1]))
        if k == "paren":
            return self.ev_expr(e[1], g)
        if k == "id" and e[1] in ("M_PI", "TMath::Pi") and not self._declared(e[1]):
            from .model import PI_Q
            return Num("double", PI_Q)
        if k == "id":
            name = e[1]
            if "::" in name and not self._declared(name):
                # qualified constant: an enum value of the data model?
                dotted = name.replace("::", ".")
                for full, (ns, values) in self.dm.enums.items():
                    for v in values:
                        if dotted == f"{ns}.{v}":
                            return EnumV(f"{ns}.{v}")
                raise IllTyped(f"unknown qualified name '{name}'")
            return self.read_cell(self.lookup(name), g)
        if k == "incdec":
            cur = self.ev_expr(e[2], g)
            if not isinstance(cur, Num) or cur.kind not in ("int", "double", "float"):
                raise IllTyped(f"{e[1]} applied to a {type(cur).__name__}")
            one = z3.IntVal(1) if cur.kind == "int" else z3.RealVal(1)
            new = Num(cur.kind, cur.t + one if e[1] == "++" else cur.t - one)
            self.assign(e[2], new, g)
            return cur if e[3] == "post" else new
        if k == "cast":
            v = self.ev_expr(e[2], g)
            t = self.dm.parse_cpp_type(e[1])
            if isinstance(t, TNum):
                if not isinstance(v, Num):
                    raise IllTyped(f"static_cast<{e[1]}> of a {type(v).__name__}")
                return conv(self.ctx, v, t.kind)
            if isinstance(v, Num):
                raise IllTyped(f"static_cast<{e[1]}> of arithmetic value")
            return v
        if k == "un":
            op = e[1]
            if op == "&":
                if e[2][0] != "id":
                    raise Unsupported("address-of non-identifier")
                return ("addr", e[2][1])
            v = self.ev_expr(e[2], g)
            if op == "*":
                return self.deref(v, g)
            if not isinstance(v, Num):
                raise IllTyped(f"unary '{op}' on {type(v).__name__}")
            if op == "!":
                return Num("bool", Not(tobool(v)))
            if v.kind == "bool":
                v = conv(self.ctx, v, "int")
            return Num(v.kind, -v.t if op == "-" else v.t)
        if k == "bin":
            return self.ev_bin(e, g)
        if k == "cond":
            c = self.ev_expr(e[1], g)
            if not isinstance(c, Num):
                raise IllTyped("condition of ?: is not arithmetic")
            cb = tobool(c)
            a = self.ev_expr(e[2], And(g, cb))
            b = self.ev_expr(e[3], And(g, Not(cb)))
            return merge(cb, a, b)
        if k == "mem":
            # data member access (no call): treat as 0-ary "attribute"
            obj = self.ev_expr(e[2], g)
            recv = self.member_target(e[1], obj, g, e[3])
            if isinstance(recv, ObjV):
                ms = self.dm.method(recv.cls, e[3])
                return self.ev.call_method(self.ctx, recv.cls, ms, recv.oid, [])
            raise Unsupported(f"data member {e[3]} of {type(recv).__name__}")
        if k == "index":
            v = self.ev_expr(e[1], g)
            i = self.ev_expr(e[2], g)
            if isinstance(v, CollV) and v.p == 0 and isinstance(i, Num):
                val, exists = select_kth(v.slots, toint(i))
                self.fault(And(g, Not(exists)), "ub_index", "operator[] out of range")
                return val
            raise IllTyped("operator[] on non-container")
        if k == "call":
            return self.ev_call(e, g)
        if k == "tid":
            raise Unsupported(f"template-id {e[1]}<{e[2]}> outside a call")
        raise Unsupported(f"expression kind {k}")

    def _declared(self, n):
        for sc in reversed(self.scopes):
            if n in sc:
                return True
        return False

    def ev_bin(self, e, g):
        op = e[1]
        a = self.ev_expr(e[2], g)
        if op in ("&&", "||"):
            if not isinstance(a, Num):
                raise IllTyped(f"operand of {op} is a {type(a).__name__}")
            ab = tobool(a)
            b = self.ev_expr(e[3], And(g, ab if op == "&&" else Not(ab)))
            if not isinstance(b, Num):
                raise IllTyped(f"operand of {op} is a {type(b).__name__}")
            bb = tobool(b)
            return Num("bool", And(ab, bb) if op == "&&" else Or(ab, bb))
        b = self.ev_expr(e[3], g)
        if op in ("==", "!=") and isinstance(a, EnumV) and isinstance(b, EnumV):
            r = z3.BoolVal(a.name == b.name)
            return Num("bool", r if op == "==" else Not(r))
        if op in ("==", "!=") and (isinstance(a, EnumV) or isinstance(b, EnumV)):
            # enum compared with the (int-valued) result of a method: compare interned codes
            x = a if isinstance(a, Num) else b
            en = a if isinstance(a, EnumV) else b
            if not isinstance(x, Num):
                raise IllTyped("enum compared with non-arithmetic value")
            r = real(x) == z3.RealVal(self.ev.intern("enum:" + en.name))
            return Num("bool", r if op == "==" else Not(r))
        if op in ("==", "!=") and isinstance(a, StrV) and isinstance(b, StrV):
            r = z3.BoolVal(a.s == b.s)
            return Num("bool", r if op == "==" else Not(r))
        if op in ("==", "!=") and (isinstance(a, StrV) or isinstance(b, StrV)):
            x = a if isinstance(a, Num) else b
            s = a if isinstance(a, StrV) else b
            if not isinstance(x, Num):
                raise IllTyped("string compared with non-string")
            raise IllTyped("comparison between arithmetic value and string literal")
        if not (isinstance(a, Num) and isinstance(b, Num)):
            raise IllTyped(f"binary '{op}' on {type(a).__name__} and {type(b).__name__}")
        if a.kind == "bool":
            a = conv(self.ctx, a, "int")
        if b.kind == "bool":
            b = conv(self.ctx, b, "int")
        kind = max(a.kind, b.kind, key=lambda x: KIND_RANK[x])
        if op == "%":
            if kind != "int":
                if "allow_real_mod" not in self.patches:
                    raise IllTyped(f"'%' with operand of kind {kind} is not valid C++")
                x, y = real(a), real(b)
                self.assumes.append(z3.Implies(And(g, self.alive), y != 0))
                q = x / y
                return Num(kind, x - y * z3.If(q >= 0, z3.ToReal(z3.ToInt(q)), -z3.ToReal(z3.ToInt(-q))))
            self.assumes.append(z3.Implies(And(g, self.alive), b.t != 0))
            return Num("int", cmod(a.t, b.t))
        if kind == "int":
            x, y = a.t, b.t
        else:
            x, y = real(a), real(b)
        if op in ("<", "<=", ">", ">=", "==", "!="):
            return Num("bool", {"<": x < y, "<=": x <= y, ">": x > y, ">=": x >= y, "==": x == y, "!=": x != y}[op])
        if op == "+":
            r = x + y
        elif op == "-":
            r = x - y
        elif op == "*":
            r = x * y
        elif op == "/":
            self.assumes.append(z3.Implies(And(g, self.alive), y != 0))
            r = cdiv(x, y) if kind == "int" else x / y
        else:
            raise Unsupported(f"operator {op}")
        if kind == "float":
            r = self.ctx.rf(r)
        if kind == "int" and "wide_int" in self.patches and op in ("+", "-", "*"):
            r = (r + (1 << 31)) % (1 << 32) - (1 << 31)        # 32-bit wrap-around
        return Num(kind, r)

    # ------------------------------------------------------------ calls
    def ev_call(self, e, g):
        callee, args = e[1], e[2]
        if callee[0] == "mem":
            return self.ev_method_call(callee, args, g)
        if callee[0] in ("id", "tid"):
            name = callee[1]
            targs = callee[2] if callee[0] == "tid" else None
            return self.ev_free_call(name, targs, args, g)
        raise Unsupported(f"call of {callee[0]}")

    def ev_free_call(self, name, targs, args, g):
        if name == "evtStore" and not args:
            return ("evtStore",)
        if name == "TTree":
            a = self.ev_args(args, g)
            if not a or not isinstance(a[0], StrV):
                raise IllTyped("TTree(name, title) needs a string name")
            return TreeV(a[0].s)
        if name == "book":
            a = self.ev_args(args, g)
            if len(a) != 1 or not isinstance(a[0], TreeV):
                raise IllTyped("book(TTree(...)) expected")
            if a[0].name in self.trees:
                raise IllTyped(f"tree '{a[0].name}' booked twice")
            self.trees[a[0].name] = []
            return StatusV(TRUE)
        if name == "tree":
            a = self.ev_args(args, g)
            if len(a) != 1 or not isinstance(a[0], StrV):
                raise IllTyped("tree(name) expected")
            if a[0].s not in self.trees:
                self.fault(g, "throw", f"tree('{a[0].s}') was never booked")
            return TreeV(a[0].s)
        if name == "edm::InputTag":
            a = self.ev_args(args, g)
            if len(a) != 1 or not isinstance(a[0], StrV):
                raise IllTyped("edm::InputTag(label) expected")
            return ("inputtag", a[0].s)
        if name == "consumes":
            a = self.ev_args(args, g)
            if len(a) != 1 or not (isinstance(a[0], tuple) and a[0][0] == "inputtag"):
                raise IllTyped("consumes<T>(edm::InputTag(..)) expected")
            return TokenV(targs, a[0][1])
        if name == "std::iota":
            a = self.ev_args(args, g)
            if len(a) != 3 or not (isinstance(a[0], IterV) and isinstance(a[1], IterV) and a[0].cell is a[1].cell
                                   and a[0].which == "begin" and a[1].which == "end" and isinstance(a[2], Num)):
                raise Unsupported("std::iota form")
            cell = a[0].cell
            v = cell.value
            start = toint(a[2]) if v.elem_t.kind == "int" else real(a[2])
            gg = And(g, self.alive)
            new = []
            for k, (sg, sv) in enumerate(v.slots):
                new.append((sg, merge(gg, Num(v.elem_t.kind, start + k), sv)))
            cell.value = CollV(v.tname, v.elem_t, v.p, new, v.valid)
            return None
        if name == "std::pow" or name == "pow":
            a = self.ev_args(args, g)
            return mathfn.apply(self.ev, "pow", a)
        if name == "std::runtime_error":
            return ("exc",)
        # math / free functions on numbers
        a = self.ev_args(args, g)
        if all(isinstance(x, Num) for x in a):
            if name in ("std::abs", "abs") and len(a) == 1 and a[0].kind in ("int", "bool"):
                x = toint(a[0])
                return Num("int", z3.If(x >= 0, x, -x))        # std::abs(int) is int
            if name in ("std::max", "std::min") and len(a) == 2:
                # template<class T> const T& max(const T&, const T&): both arguments must have the same type
                if a[0].kind != a[1].kind:
                    raise IllTyped(f"{name}({a[0].kind}, {a[1].kind}): no matching function (template argument deduction conflict)")
                x, y = (a[0].t, a[1].t) if a[0].kind == "int" else (real(a[0]), real(a[1]))
                pick = (x >= y) if name == "std::max" else (x <= y)
                return Num(a[0].kind, z3.If(pick, x, y))
            try:
                return mathfn.cpp_call(self.ev, name, a)
            except mathfn.IllTypedCall as e:
                raise IllTyped(str(e))
        raise Unsupported(f"free function {name} on non-numeric arguments")

    def ev_method_call(self, callee, args, g):
        _, op, obj_e, name, targs = callee
        # framework objects first
        if obj_e == ("call", ("id", "evtStore"), []) and name == "retrieve" and op == "->":
            return self.do_retrieve(args, g)
        if obj_e == ("call", ("id", "evtStore"), []) and name == "contains" and op == "->" and targs and len(args) == 1:
            key = self.ev_expr(args[0], g)
            if not isinstance(key, StrV):
                raise IllTyped("contains<T>(key): key must be a string")
            ctype = re.sub(r"^const\s+", "", targs[0] if isinstance(targs, (list, tuple)) else str(targs)).strip().rstrip("*").strip()
            return Num("bool", self.ev.store_entry(ctype, key.s)["present"])
        if obj_e[0] == "id" and obj_e[1] == "iEvent" and not self._declared("iEvent"):
            if op != ".":
                raise IllTyped("iEvent is a reference; use '.'")
            if name == "getByLabel":
                return self.do_get_by_label(args, g)
            if name == "getByToken":
                return self.do_get_by_token(args, g)
            raise Unsupported(f"iEvent.{name}")
        if obj_e[0] == "id" and obj_e[1] == "fs" and name == "make" and targs == "TTree":
            a = self.ev_args(args, g)
            if not a or not isinstance(a[0], StrV):
                raise IllTyped("fs->make<TTree>(name, title)")
            if a[0].s in self.trees:
                raise IllTyped(f"tree '{a[0].s}' booked twice")
            self.trees[a[0].s] = []
            return TreeV(a[0].s)
        obj = self.ev_expr(obj_e, g)
        if isinstance(obj, TreeV):
            if op != "->":
                raise IllTyped("TTree* accessed with '.'")
            if name == "Fill":
                self.do_fill(obj.name, g)
                return None
            if name == "Branch":
                a = self.ev_args(args, g)
                if len(a) != 2 or not isinstance(a[0], StrV) or not (isinstance(a[1], tuple) and a[1][0] == "addr"):
                    raise IllTyped("Branch(name, &member) expected")
                cell = self.lookup(a[1][1])
                if not cell.is_member:
                    raise IllTyped(f"Branch bound to non-member '{a[1][1]}'")
                self.trees[obj.name].append((a[0].s, a[1][1]))
                return None
            raise Unsupported(f"TTree::{name}")
        if isinstance(obj, tuple) and obj and obj[0] == "evtStore":
            raise Unsupported(f"evtStore()->{name}")
        recv = self.member_target(op, obj, g, name)
        if isinstance(recv, CollV):
            return self.coll_method(recv, obj_e, name, args, g)
        if isinstance(recv, ObjV):
            if recv.ref and recv.p == 1 and op == "." and name in ("isNonnull", "isNull", "isAvailable"):
                r = Not(recv.null) if name != "isNull" else recv.null
                return Num("bool", r)
            a = self.ev_args(args, g)
            need_sd = self.dm.method(recv.cls, name, len(a)).deref_count
            if recv.sd != need_sd:
                raise IllTyped(f"method {recv.cls}::{name} is declared with deref_count {need_sd} but is reached after {recv.sd} dereference(s) of the object")
            mname = name if targs is None else f"{name}<{re.sub(r'\\s+', '', targs)}>"
            ms = self.dm.method(recv.cls, mname, len(a))
            if targs is not None and not ms.declared:
                rt = self.dm.parse_cpp_type(targs)
                from .model import MethodSpec
                ms = MethodSpec(mname, rt, len(a))
            return self.ev.call_method(self.ctx, recv.cls, ms, recv.oid, a)
        raise IllTyped(f"method '{name}' called on a {type(recv).__name__}")

    def coll_method(self, v, obj_e, name, args, g):
        if v.handle:
            if name == "isValid":
                return Num("bool", v.valid)
            raise Unsupported(f"Handle::{name}")
        if name == "size":
            return Num("int", count(v.slots))
        if name == "empty":
            return Num("bool", count(v.slots) == 0)
        if name == "at":
            a = self.ev_args(args, g)
            if len(a) != 1 or not isinstance(a[0], Num):
                raise IllTyped("at(index) expected")
            val, exists = select_kth(v.slots, toint(a[0]))
            self.fault(And(g, Not(exists)), "out_of_range", "vector::at")
            if val is None:
                # statically empty container
                return self.default_value(v.elem_t, f"garb_at_{self.fresh}")
            return val
        if name in ("begin", "end") and obj_e[0] == "id":
            return IterV(self.lookup(obj_e[1]), name)
        if name in ("push_back", "clear"):
            if obj_e[0] != "id":
                raise Unsupported("push_back on non-variable")
            cell = self.lookup(obj_e[1])
            cur = cell.value
            gg = And(g, self.alive)
            if name == "clear":
                cell.value = CollV(cur.tname, cur.elem_t, cur.p, [(And(sg, Not(gg)), sv) for sg, sv in cur.slots], cur.valid)
                return None
            a = self.ev_args(args, g)
            if len(a) != 1:
                raise IllTyped("push_back(value)")
            val = self.coerce(a[0], cur.elem_t, "push_back")
            cell.value = CollV(cur.tname, cur.elem_t, cur.p, cur.slots + [(gg, val)], cur.valid)
            return None
        raise Unsupported(f"container method {name}")

    def coerce(self, v, t, what):
        "Implicit conversion of value v to declared type t (assignment/initialisation/push_back)."
        if isinstance(t, TNum):
            if isinstance(v, EnumV):
                return Num(t.kind, z3.RealVal(self.ev.intern("enum:" + v.name)) if t.kind != "int" else z3.IntVal(self.ev.intern("enum:" + v.name)))
            if not isinstance(v, Num):
                raise IllTyped(f"{what}: {type(v).__name__} where {t.kind} is required")
            return conv(self.ctx, v, t.kind)
        if isinstance(t, TColl):
            if isinstance(v, Num) and t.p >= 1:
                return CollV(t.name, t.elem, t.p, [], valid=FALSE)      # = 0 / nullptr
            if not isinstance(v, CollV):
                raise IllTyped(f"{what}: {type(v).__name__} where {t} is required")
            if v.p != t.p or v.handle:
                raise IllTyped(f"{what}: container indirection mismatch ({v.tname}{'*' * v.p}{' handle' if v.handle else ''} vs {t})")
            if v.tname != t.name:
                raise IllTyped(f"{what}: container type mismatch ({v.tname} vs {t.name})")
            if isinstance(t.elem, TNum):
                return CollV(t.name, t.elem, t.p, [(sg, self.coerce(sv, t.elem, what)) for sg, sv in v.slots], v.valid)
            return v
        if isinstance(t, THandle):
            if not (isinstance(v, CollV) and v.handle):
                raise IllTyped(f"{what}: {type(v).__name__} where an edm::Handle is required")
            if v.tname != t.inner.name:
                raise IllTyped(f"{what}: Handle type mismatch ({v.tname} vs {t.inner.name})")
            return v
        if isinstance(t, TObj):
            if isinstance(v, EnumV) and t.p == 0 and t.cls.replace("::", ".") in self.dm.enums:
                ens, evals = self.dm.enums[t.cls.replace("::", ".")]
                if v.name.rsplit(".", 1)[0] != ens or v.name.rsplit(".", 1)[1] not in evals:
                    raise IllTyped(f"{what}: value {v.name} is not a value of enum {t.cls}")
                return v
            if isinstance(v, Num):
                if t.p >= 1:
                    return ObjV(t.cls, t.p, z3.IntVal(0), TRUE)
                if t.cls in ("double", "float", "int", "bool"):
                    return v
                raise IllTyped(f"{what}: arithmetic value where {t} is required")
            if not isinstance(v, ObjV):
                raise IllTyped(f"{what}: {type(v).__name__} where {t} is required")
            if v.cls != t.cls or v.p != t.p:
                if t.cls == "auto":
                    return v
                raise IllTyped(f"{what}: type mismatch ({v.cls}{'*' * v.p} vs {t})")
            return v
        if isinstance(t, TToken):
            if not isinstance(v, TokenV):
                raise IllTyped(f"{what}: token expected")
            if v.of != t.of:
                raise IllTyped(f"{what}: token type mismatch ({v.of} vs {t.of})")
            return v
        if isinstance(t, TStr):
            if not isinstance(v, StrV):
                raise IllTyped(f"{what}: string expected")
            return v
        raise Unsupported(f"coerce to {t}")

    # ------------------------------------------------------------ framework calls
    def out_var(self, e):
        if e[0] != "id":
            raise Unsupported("output argument is not a variable")
        return self.lookup(e[1])

    def do_retrieve(self, args, g):
        if len(args) != 2:
            raise IllTyped("retrieve(ptr, key)")
        cell = self.out_var(args[0])
        key = self.ev_expr(args[1], g)
        if not isinstance(key, StrV):
            raise IllTyped("retrieve key must be a string")
        t = cell.ctype
        gg = And(g, self.alive)
        if isinstance(t, TColl) and t.p == 1:
            cv = self.ev.store_container(t.name, key.s, t.elem, 1)
            self.requests.append((gg, t.name, key.s, "retrieve"))
            ok = cv.valid
            new = CollV(cv.tname, cv.elem_t, 1, cv.slots, ok, False, cv.key)
            old = cell.value
            cell.value = new if isinstance(old, Uninit) else merge(And(gg, ok), new, old)
            cell.init = Or(cell.init, gg)
            return StatusV(ok)
        if isinstance(t, TObj) and t.p == 1:
            ov = self.ev.store_singleton(t.cls, key.s, 1)
            self.requests.append((gg, t.cls, key.s, "retrieve"))
            ok = Not(ov.null)
            old = cell.value
            cell.value = ov if isinstance(old, Uninit) else merge(And(gg, ok), ov, old)
            cell.init = Or(cell.init, gg)
            return StatusV(ok)
        raise IllTyped(f"retrieve into a variable of type {t}")

    def do_get_by_label(self, args, g):
        if len(args) != 2:
            raise IllTyped("getByLabel(label, handle)")
        key = self.ev_expr(args[0], g)
        cell = self.out_var(args[1])
        if not isinstance(key, StrV):
            raise IllTyped("getByLabel label must be a string")
        return self._fill_handle(cell, key.s, g, "getByLabel")

    def do_get_by_token(self, args, g):
        if len(args) != 2:
            raise IllTyped("getByToken(token, handle)")
        tok = self.ev_expr(args[0], g)
        cell = self.out_var(args[1])
        if not isinstance(tok, TokenV):
            raise IllTyped("getByToken needs a token")
        t = cell.ctype
        if isinstance(t, THandle) and tok.of != t.inner.name:
            raise IllTyped(f"token of {tok.of} used with Handle<{t.inner.name}>")
        if tok.tag is None:
            self.fault(g, "throw", "getByToken with uninitialised token")
            return Num("bool", FALSE)
        return self._fill_handle(cell, tok.tag, g, "getByToken")

    def _fill_handle(self, cell, bank, g, idiom):
        t = cell.ctype
        if not isinstance(t, THandle):
            raise IllTyped(f"{idiom} into non-Handle variable of type {t}")
        gg = And(g, self.alive)
        cv = self.ev.store_container(t.inner.name, bank, t.inner.elem, 0, handle=True)
        self.requests.append((gg, t.inner.name, bank, idiom))
        cell.value = cv
        cell.init = Or(cell.init, gg)
        return Num("bool", cv.valid)

    def do_fill(self, tname, g):
        gg = And(g, self.alive)
        if tname not in self.trees:
            self.fault(g, "throw", f"Fill on unbooked tree {tname}")
            return
        snap = {}
        for br, member in self.trees[tname]:
            cell = self.lookup(member)
            v = self.read_cell(cell, g) if not isinstance(cell.value, Uninit) else cell.value
            snap[br] = v
        self.rows.append((gg, tname, snap))

    # ------------------------------------------------------------ statements
    def run_block(self, blk, g, new_scope=True):
        assert blk[0] == "block"
        if new_scope:
            self.scopes.append(dict())
        for st in blk[1]:
            self.run_stmt(st, g)
        if new_scope:
            self.scopes.pop()

    def declare_local(self, ty, name, init_e, form, g):
        if name in self.scopes[-1]:
            raise IllTyped(f"'{name}' declared twice in the same scope")
        if any(name in sc for sc in self.scopes[:-1]):
            self.shadows.append(name)
        self.fresh += 1
        gg = And(g, self.alive)
        if ty == "auto":
            if init_e is None:
                raise IllTyped("auto without initialiser")
            v = self.ev_expr(init_e, g)
            if isinstance(v, Num):
                t = TNum(v.kind)
            elif isinstance(v, ObjV):
                t = TObj(v.cls, v.p, v.ref)
            elif isinstance(v, CollV):
                t = THandle(TColl(v.tname, v.elem_t, 0)) if v.handle else TColl(v.tname, v.elem_t, v.p)
            elif isinstance(v, TreeV):
                self.tree_ptr[name] = v.name
                self.scopes[-1][name] = Cell(name, TVoid(), v, TRUE)
                return
            else:
                raise Unsupported(f"auto of {type(v).__name__}")
            self.scopes[-1][name] = Cell(name, t, v, TRUE)
            return
        if ty.startswith("edm::Service<"):
            self.scopes[-1][name] = Cell(name, TVoid(), ("service",), TRUE)
            return
        t = self.dm.parse_cpp_type(ty)
        if init_e is None:
            if isinstance(t, TNum):
                self.scopes[-1][name] = Cell(name, t, self.default_value(t, f"garb{self.tag}_{name}_{self.fresh}"), FALSE)
            elif isinstance(t, TColl) and t.p == 0:
                self.scopes[-1][name] = Cell(name, t, CollV(t.name, t.elem, 0, []), TRUE)
            elif isinstance(t, THandle):
                self.scopes[-1][name] = Cell(name, t, CollV(t.inner.name, t.inner.elem, 0, [], valid=FALSE, handle=True), TRUE)
            else:
                self.scopes[-1][name] = Cell(name, t, Uninit(), FALSE)
            return
        if isinstance(t, TColl) and t.p == 0 and form == "paren":
            # std::vector<T> v (n): n value-initialised elements
            n = self.ev_expr(init_e, g)
            if not isinstance(n, Num):
                raise IllTyped("vector size must be arithmetic")
            nt = toint(n)
            ns = z3.simplify(nt)
            self.fault(And(g, nt < 0), "throw", "std::vector(n) with negative n (length_error/bad_alloc)")
            if z3.is_int_value(ns):
                cap = ns.as_long()
                if cap > 64:
                    raise Unsupported("vector larger than 64")
            else:
                cap = self.range_cap
                self.assumes.append(z3.Implies(gg, nt <= cap))
            zero = Num(t.elem.kind, z3.IntVal(0) if t.elem.kind == "int" else (z3.BoolVal(False) if t.elem.kind == "bool" else z3.RealVal(0)))
            slots = [(z3.IntVal(k) < nt, zero) for k in range(max(cap, 0))]
            self.scopes[-1][name] = Cell(name, t, CollV(t.name, t.elem, 0, slots), TRUE)
            return
        v = self.ev_expr(init_e, g)
        self.scopes[-1][name] = Cell(name, t, self.coerce(v, t, f"initialisation of {name}"), TRUE)

    def assign(self, lhs_e, val, g):
        if lhs_e[0] != "id":
            raise Unsupported("assignment to non-variable")
        cell = self.lookup(lhs_e[1])
        gg = And(g, self.alive)
        if isinstance(val, TreeV):
            # myTree = fs->make<TTree>(...)
            self.tree_ptr[lhs_e[1]] = val.name
            cell.value = val
            cell.init = TRUE
            return
        new = self.coerce(val, cell.ctype, f"assignment to {cell.name}")
        old = cell.value
        if isinstance(old, Uninit) or isinstance(new, TokenV):
            cell.value = new
        else:
            cell.value = merge(gg, new, old)
        cell.init = Or(cell.init, gg)

    def run_stmt(self, st, g):
        k = st[0]
        if k == "block":
            self.run_block(st, g)
        elif k == "decl":
            self.declare_local(st[1], st[2], st[3], st[4], g)
        elif k == "assign":
            v = self.ev_expr(st[2], g)
            self.assign(st[1], v, g)
        elif k == "expr":
            e_ = st[1]
            if e_[0] == "call" and e_[1][0] == "id" and re.match(r"^(ANA_MSG_(WARNING|INFO|ERROR|DEBUG|VERBOSE)|ATH_MSG_\w+)$", e_[1][1]):
                return            # logging macros have no effect on rows
            self.ev_expr(st[1], g)
        elif k == "ana_check":
            r = self.ev_expr(st[1], g)
            if not isinstance(r, StatusV):
                raise IllTyped("ANA_CHECK of a non-StatusCode expression")
            self.fault(And(g, Not(r.ok)), "status", "ANA_CHECK failed")
        elif k == "for":
            _, var, ce, body = st
            c = self.ev_expr(ce, g)
            if not isinstance(c, CollV):
                raise IllTyped(f"range-for over a {type(c).__name__}")
            if c.p != 0 or c.handle:
                raise IllTyped(f"range-for over {'Handle' if c.handle else 'pointer'} {c.tname} (missing dereference)")
            for sg, sv in list(c.slots):
                gi = And(g, sg)
                if z3.is_false(gi):
                    continue
                self.scopes.append({var: Cell(var, self.type_of(sv), sv, TRUE)})
                self.run_block(body, gi)
                self.scopes.pop()
        elif k == "if":
            c = self.ev_expr(st[1], g)
            if not isinstance(c, Num):
                raise IllTyped(f"if-condition is a {type(c).__name__}")
            cb = tobool(c)
            self.run_block(st[2], And(g, cb))
            if st[3] is not None:
                self.run_block(st[3], And(g, Not(cb)))
        elif k == "throw":
            self.fault(g, "throw", f"[{st[1]}] " + (st[2][:60] if st[2] else ""))
        elif k == "try":
            alive0 = self.alive
            n0 = len(self.faults)
            self.run_block(st[1], g)
            new = self.faults[n0:]
            kept, caught_by = [], [[] for _ in st[2]]
            for f in new:
                hit = None
                for hi, (decl, _) in enumerate(st[2]):
                    d = decl.replace("const", "").replace("&", " ").strip()
                    if d == "...":
                        ok = f[1] in ("throw", "out_of_range")
                    elif re.match(r"^(std::)?(runtime_error|exception)\b", d):
                        ok = f[1] == "throw" and ("[std::runtime_error]" in f[2] or (d.startswith(("std::exception", "exception")) and f[2].startswith("[std::")))
                        ok = ok or (f[1] == "out_of_range" and re.match(r"^(std::)?exception\b", d) is not None)
                    else:
                        raise Unsupported(f"catch ({decl})")
                    if ok:
                        hit = hi
                        break
                if hit is None:
                    kept.append(f)
                else:
                    caught_by[hit].append(f)
            self.faults = self.faults[:n0] + kept
            # after the try statement execution continues wherever no UNcaught fault happened
            self.alive = alive0
            for f in kept:
                self.alive = And(self.alive, Not(f[0]))
            for (decl, hb), fs in zip(st[2], caught_by):
                if fs:
                    self.run_block(hb, Or(*[f[0] for f in fs]))
        elif k == "using":
            pass          # name lookup only (type names are resolved with and without their namespace)
        elif k == "return":
            if st[1] and st[1].replace(" ", "") == "StatusCode::FAILURE":
                self.fault(g, "status", "return StatusCode::FAILURE")
                return
            if st[1] and st[1].replace(" ", "") != "StatusCode::SUCCESS":
                raise Unsupported("return with a value inside generated code")
            # the per-event function ends here WITHOUT a fault: nothing after it runs on this path (same mechanism as a fault,
            # but no fault record) and the path is remembered as 'ended early'
            gg = And(g, self.alive)
            self.returned = Or(self.returned, gg)
            self.alive = And(self.alive, Not(g))
        elif k == "opaque":
            raise Unsupported(f"statement outside subset: {st[1][:80]}")
        else:
            raise Unsupported(k)

    def type_of(self, v):
        if isinstance(v, Num):
            return TNum(v.kind)
        if isinstance(v, ObjV):
            return TObj(v.cls, v.p, v.ref)
        if isinstance(v, CollV):
            return TColl(v.tname, v.elem_t, v.p)
        return TVoid()


def _byte_char(b):
    """A numeric escape denotes ONE BYTE of the execution string.  Below 0x80 that is the character; from 0x80 up it is a
    lone byte, which is not the UTF-8 encoding of any character: kept apart as a lone surrogate (python's 'surrogateescape'
    convention), so that "\\xb5" is not mistaken for the character U+00B5 (whose UTF-8 encoding is two bytes)."""
    return chr(b) if b < 0x80 else chr(0xDC00 + b)


def cpp_unescape(lit):
    "Value denoted by a C++ narrow string literal token (with quotes)."
    assert lit[0] == '"' and lit[-1] == '"'
    s = lit[1:-1]
    out = []
    i = 0
    simple = {"n": "\n", "t": "\t", "r": "\r", "0": "\0", "\\": "\\", '"': '"', "'": "'", "a": "\a",
              "b": "\b", "f": "\f", "v": "\v", "?": "?"}
    while i < len(s):
        ch = s[i]
        if ch == "\\" and i + 1 < len(s):
            nx = s[i + 1]
            if nx == "x":
                j = i + 2
                while j < len(s) and s[j] in "0123456789abcdefABCDEF":
                    j += 1
                out.append(_byte_char(int(s[i + 2:j], 16) & 0xFF) if j > i + 2 else "x")
                i = j
                continue
            if nx in "uU":
                nd = 4 if nx == "u" else 8
                h = s[i + 2:i + 2 + nd]
                if len(h) == nd and all(c in "0123456789abcdefABCDEF" for c in h) and int(h, 16) <= 0x10FFFF:
                    out.append(chr(int(h, 16)))
                    i += 2 + nd
                    continue
            if nx in "01234567":
                j = i + 1
                while j < len(s) and j < i + 4 and s[j] in "01234567":
                    j += 1
                out.append(_byte_char(int(s[i + 1:j], 8) & 0xFF))
                i = j
                continue
            out.append(simple.get(nx, nx))
            i += 2
            continue
        out.append(ch)
        i += 1
    return "".join(out)
