"""Run the REAL translator (current /repo working tree) on a query given as text.

The query is parsed with ast.parse (never through func_adl's lambda introspection),
handed to executor.apply_ast_transformations + write_cpp_files exactly as ServiceX's
code generator does, and the rendered package is read back from disk.
"""
import ast
import logging
import os
import shutil
import tempfile
from pathlib import Path

BACKENDS = ("atlas", "cms_aod", "cms_miniaod")
MAIN_FILE = {"atlas": "query.cxx", "cms_aod": "Analyzer.cc", "cms_miniaod": "Analyzer.cc"}
TEMPLATE_DIR = {
    "atlas": "func_adl_xAOD/template/atlas/r21",
    "cms_aod": "func_adl_xAOD/template/cms/r5",
    "cms_miniaod": "func_adl_xAOD/template/cms/r7",
}


def scratch_root() -> Path:
    run = os.environ.get("VERIF_RUN_ID")
    base = Path(os.environ.get("VERIF_SCRATCH", tempfile.gettempdir()))
    base = (base / f"verif-{run}" / str(os.getpid())) if run else (base / f"verif-{os.getpid()}")
    base.mkdir(parents=True, exist_ok=True)
    return base


def make_executor(backend):
    if backend == "atlas":
        from func_adl_xAOD.atlas.xaod.executor import atlas_xaod_executor
        return atlas_xaod_executor()
    if backend == "cms_aod":
        from func_adl_xAOD.cms.aod.executor import cms_aod_executor
        return cms_aod_executor()
    if backend == "cms_miniaod":
        from func_adl_xAOD.cms.miniaod.executor import cms_miniaod_executor
        return cms_miniaod_executor()
    raise ValueError(backend)


def wipe_registries():
    "What tests/conftest.py does between tests: a fresh-process approximation."
    import func_adl_xAOD.common.cpp_types as ctyp
    ctyp.g_method_type_dict = {}
    ctyp.g_toplevel_ns = {}


class Package:
    """A rendered package, read back from disk."""

    def __init__(self, backend, files, info, modes, exe=None):
        self.backend = backend
        self.files = files            # name -> text
        self.modes = modes            # name -> st_mode & 0o777
        self.treename = getattr(info.result_rep, "treename", None)
        self.filename = getattr(info.result_rep, "filename", None)
        self.main_script = info.main_script
        self.all_filenames = list(info.all_filenames)

    @property
    def main(self):
        return self.files[MAIN_FILE[self.backend]]


class TranslationRaised(Exception):
    def __init__(self, exc):
        super().__init__(f"{type(exc).__name__}: {exc}")
        self.exc = exc


class _FoldNegative(ast.NodeTransformer):
    """-5 written in source text parses as UnaryOp(USub, Constant(5)); a captured python variable holding -5 reaches the
    backend as Constant(-5) (func_adl.util_ast.as_literal).  Programs tagged 'fold_neg' are translated in the second form."""
    def visit_UnaryOp(self, node):
        self.generic_visit(node)
        if isinstance(node.op, ast.USub) and isinstance(node.operand, ast.Constant) and type(node.operand.value) in (int, float):
            return ast.copy_location(ast.Constant(value=-node.operand.value), node)
        return node


def parse_query(text, fold_neg=False):
    a = ast.parse(text.strip(), mode="eval").body
    if fold_neg:
        a = ast.fix_missing_locations(_FoldNegative().visit(a))
    return a


def translate(query, backend="atlas", fresh=True, exe=None, keep_dir=None, quiet=True, fold_neg=False, twice=False):
    """query: source text or ast.AST.  Returns Package or raises TranslationRaised.

    fresh=True wipes the global registries and creates a new executor (one 'fresh
    interpreter' per program, as the test-suite's autouse fixture does)."""
    if quiet:
        logging.disable(logging.CRITICAL)
    a = parse_query(query, fold_neg) if isinstance(query, str) else query
    if fresh:
        wipe_registries()
    if exe is None:
        exe = make_executor(backend)
    d = Path(tempfile.mkdtemp(prefix="pkg", dir=scratch_root())) if keep_dir is None else Path(keep_dir)
    try:
        try:
            if twice:
                # the package under analysis is the one the SAME executor object gives for its second query (same text)
                d0 = Path(tempfile.mkdtemp(prefix="pkg0", dir=scratch_root()))
                try:
                    exe.write_cpp_files(exe.apply_ast_transformations(parse_query(query, fold_neg) if isinstance(query, str) else query), d0)
                finally:
                    shutil.rmtree(d0, ignore_errors=True)
            a2 = exe.apply_ast_transformations(a)
            info = exe.write_cpp_files(a2, d)
        except Exception as e:  # noqa: BLE001  (CrossHair control flow is BaseException)
            raise TranslationRaised(e) from e
        files, modes = {}, {}
        for p in sorted(d.iterdir()):
            if p.is_file():
                files[p.name] = p.read_text(encoding="utf-8", errors="surrogateescape")
                modes[p.name] = p.stat().st_mode & 0o777
        return Package(backend, files, info, modes)
    finally:
        if keep_dir is None:
            shutil.rmtree(d, ignore_errors=True)
